"""C04 Any specification-valid classic file is read back exactly.

PROVED (coq/Properties_C04.v, model coq/Reader.v = ncmpio_header_get.c + the post-processing at
open + the dispatcher's signature detection):
  * window_inv (the live part of the bufferinfo window equals the zero-extended file at the abstract
    read position) is established by the first fetch and preserved by hdr_fetch and by every hdr_get_*;
  * chunk_decode_eq_flat: for EVERY value of the chunk hint (the code normalises it to a multiple of 4
    that is >= 36) and every byte sequence, the chunked reader returns exactly what a single-pass
    reader over the zero-extended file returns (header, error code or crash site);
  * reader_accepts_valid: every file that the BNF decoder HeaderSpec.decode accepts and that is valid
    (Reader.c04_valid: limits, dimids, unlimited rules, size rules, begins increasing in definition
    order; NOTHING about vsize, padding content, gaps, junk) is accepted for every chunk size, and the
    NC object holds exactly the decoded header with begin_var/begin_rec/recsize/len recomputed;
  * encoded_read_back: composition with decode_encode_full (every header the encoder model writes,
    followed by any bytes, is read back exactly).
TIE (re-established on every run): correspondence of the EXTRACTED model with the real library on
files written by an independent free-choice encoder (tools/c04_gen.py, from the format specification):
gaps, junk, stale/saturated vsize, zero-length attributes, ABSENT styles, 3 formats, record and fixed
variables with data; chunk sizes 36,40,64,128,4096,default through hook H1, 1-3 ranks,
romio_no_indep_rw on/off, collective and independent reads; an exhaustive sweep of all chunk sizes /
all shifts of one fixed header across the chunk boundaries; >= 600 KiB headers with the genuine
256 KiB chunk (thorough).  a targeted family for the single-record-variable record-size rule (every type x 1..5 elements per
record x 0-2 fixed variables x 2-4 records), every record also read SEPARATELY (get_vara).
ORACLE: every inquiry (incl. ncmpi_inq_recsize) and every data read equals the generator's ground
truth (which never looks at the model).  Static ties: source patterns and constants the model
depends on (tools/c04_lib.static_ties)."""
import os, sys, json, time
sys.path.insert(0, os.path.join(os.path.dirname(os.path.dirname(os.path.abspath(__file__))), 'tools'))
from pnc import common as C
import c04_gen as G
import c04_lib as L

LEVEL = 'proof'
ASSUMPTIONS = [
    'MPI_File_read_at returns the bytes of the file and a short count at end of file (MPI-IO errors not modelled)',
    'MPI_Bcast delivers the root window to the other ranks (rank independence is OBSERVED on 1-3 ranks, not proved)',
    'the window is modelled by its live part base+pos..end: bytes before pos are never read again by the C code',
    'allocation failure is modelled by a size limit mm (hypothesis hdr_req h <= mm in c04_valid)',
    'data reads (ncmpi_get_var*) are covered by observation only; the theorems are about the header reader',
    'ncmpi_inq_get_size after a COLLECTIVE header read on >1 ranks may be the final offset (OpenMPI/ompio reports the requested count at end of file); accepted and counted',
]
CHECKER_CMD = ('coq_makefile -f _CoqProject -o Makefile && make -k -j16 Properties_C04.vo && '
               'coqc -Q . Pnc Properties_C04.v (Print Assumptions)')
MM = 1 << 40
MAXDATA = 1 << 20


def file_repr(f, chunk, np_, hints):
    return 'fmt%d hdr%d nd%d ng%d nv%d rec%d gap%d chunk=%s np=%d %s' % (
        f.fmt, f.hdr_len, len(f.dims), len(f.gatts), len(f.vars), f.numrecs, f.hdr_gap, chunk, np_, ','.join(hints))


def run(ctx):
    lib = C.libdir()
    wd = C.scratch()
    exe = L.stable_copy(L.harness_exe(lib), wd)
    ties = L.static_ties(lib)
    pr = C.prove(ctx.pid, gens=('consts',), lib=lib)
    proof_ok = ctx.add_proof(pr, CHECKER_CMD)
    ctx.cov['trusted_base'] = list(C.TRUSTED_COMMON) + [
        'harness/c04_open.c (dump of inquiries/reads), harness/c04_model.ml (printing glue of the extracted model)',
        'tools/c04_gen.py (free-choice encoder + ground truth), tools/c04_lib.py']
    model = L.stable_copy(L.model_exe(), wd)
    thorough = ctx.tier == 'thorough'
    t0 = time.time()

    cases = []          # dict(tag, path, chunk, np, hints, flags, f, truth, kind)
    files = {}
    def add_file(name, f, data):
        p = os.path.join(wd, name + '.nc')
        open(p, 'wb').write(data)
        files[name] = (f, p, data)
        return p
    def add_case(name, chunk, np_=1, hints=(), flags='', kind='random'):
        f, p, data = files[name]
        tag = '%s_c%s_n%d_%d' % (name, chunk if chunk is not None else 'def', np_, len(cases))
        cases.append(dict(tag=tag, name=name, path=p, chunk=chunk, np=np_, hints=list(hints), flags=flags, kind=kind,
                          maxdata=MAXDATA))

    # A. random specification-valid files, 1 rank, the chunk sizes of the property text
    nf = 1000 if thorough else 80
    for k in range(nf):
        r = ctx.rng.fork('file-%d' % k)
        f = G.gen_file(r)
        add_file('r%d' % k, f, f.encode(r))
        for ch in (36, 40, 64, 128, 4096, None):
            add_case('r%d' % k, ch)
    # B. 2 and 3 ranks, header read collectively / by root only, independent reads too
    nm = 80 if thorough else 10
    for k in range(nm):
        for np_ in (2, 3):
            for hint in ('romio_no_indep_rw=true', 'romio_no_indep_rw=false'):
                add_case('r%d' % k, ctx.rng.choice([36, 64, 128, 4096]), np_=np_, hints=[hint], flags='i', kind='ranks')
    # C. exhaustive sweeps on one fixed header: every chunk size from 36 to past the header, and every
    #    shift (length of the first global attribute) under chunk 64: each header item meets each split
    for fmt in (1, 2, 5):
        f, r = G.fixed_schema(fmt, 5)
        add_file('s%d' % fmt, f, f.encode(r))
        for ch in range(36, f.hdr_len + 12, 4):
            add_case('s%d' % fmt, ch, kind='sweep-chunk')
        for glen in range(0, 68 if not thorough else 132):
            f2, r2 = G.fixed_schema(fmt, glen, name_len=3 + glen % 7)
            add_file('g%d_%d' % (fmt, glen), f2, f2.encode(r2))
            add_case('g%d_%d' % (fmt, glen), 64, kind='sweep-shift')
            if thorough:
                add_case('g%d_%d' % (fmt, glen), 36, kind='sweep-shift')
    # E. the open-time record-size rule: exactly one record variable x every type x 1..5 elements per
    #    record x 0..2 fixed variables x 2..4 records x 3 formats (+ the two-record-variable control);
    #    ncmpi_inq_recsize and every record read separately (get_vara, start[0]=r) are compared
    rr = ctx.rng.fork('recsize-family')
    for name, f in G.recsize_family(rr, full=thorough):
        add_file(name, f, f.encode(rr))
        add_case(name, 64, kind='recsize')
    # D. headers of >= 600 KiB: several genuine 256 KiB chunks (thorough)
    if thorough:
        for fmt in (1, 2, 5):
            r = ctx.rng.fork('huge-%d' % fmt)
            f = G.gen_file(r, fmt=fmt, size_class='huge')
            add_file('h%d' % fmt, f, f.encode(r))
            add_case('h%d' % fmt, None, kind='huge')
            add_case('h%d' % fmt, 4096, kind='huge')
            add_case('h%d' % fmt, None, np_=2, hints=['romio_no_indep_rw=true'], kind='huge')

    # ---- model predictions
    mcases = [(c['tag'], c['chunk'] if c['chunk'] is not None else 262144, MM, MAXDATA, c['path']) for c in cases]
    pred = L.run_model(model, mcases, wd, jobs=8, timeout=1500)
    # ---- implementation
    impl = {}
    groups = {}
    for c in cases:
        groups.setdefault(c['np'], []).append(c)
    for np_, cs in sorted(groups.items()):
        impl.update(L.run_batch(exe, cs, wd, np_=np_, jobs=8 if np_ == 1 else 3, bsz=40 if np_ == 1 else 12))

    stats = dict(cases=len(cases), files=len(files), oracle_failures=0, model_disagreements=0, by_kind={}, by_fmt={},
                 by_np={}, hdr_bytes_min=None, hdr_bytes_max=0, chunks_spanned_max=0, static_ties_broken=ties,
                 with_record_data=0, model_wall_s=None)
    disagreements = []
    oracle_fails = {}
    truth_cache = {}
    for c in cases:
        f, p, data = files[c['name']]
        if c['name'] not in truth_cache:
            truth_cache[c['name']] = f.truth(maxdata=MAXDATA)
        truth = truth_cache[c['name']]
        r = impl.get(c['tag'])
        m = pred.get(c['tag'])
        stats['by_kind'][c['kind']] = stats['by_kind'].get(c['kind'], 0) + 1
        stats['by_fmt'][str(f.fmt)] = stats['by_fmt'].get(str(f.fmt), 0) + 1
        stats['by_np'][str(c['np'])] = stats['by_np'].get(str(c['np']), 0) + 1
        stats['hdr_bytes_min'] = f.hdr_len if stats['hdr_bytes_min'] is None else min(stats['hdr_bytes_min'], f.hdr_len)
        stats['hdr_bytes_max'] = max(stats['hdr_bytes_max'], f.hdr_len)
        eff = max(36, c['chunk'] or 262144)
        stats['chunks_spanned_max'] = max(stats['chunks_spanned_max'], (f.hdr_len + eff - 1) // eff)
        if f.recs and f.numrecs:
            stats['with_record_data'] += 1
        ctx.count(file_repr(f, c['chunk'], c['np'], c['hints']) + ' ' + c['kind'],
                  nontrivial=(len(f.vars) > 0 or f.hdr_len > eff))
        # ---------- ORACLE: the implementation's own observations against the encoder's ground truth
        lines = [l for l in (r['lines'] if r else []) if not l.startswith('idata ')]
        idata = [l for l in (r['lines'] if r else []) if l.startswith('idata ')]
        why = None
        if r is None or r['status'] != 'done':
            why = ('harness %s' % (r['status'] if r else 'missing'), '', (r or {}).get('raw', '')[-800:])
        else:
            d = L.first_diff(L.mask_getsize(lines), truth)
            if d:
                why = ('line %d differs' % d[0], d[1][:300], d[2][:300])
            elif r['ranks_agree'] is False:
                why = ('ranks disagree', '', '')
            elif any(not l.endswith(' same') for l in idata):
                why = ('independent read differs from collective read', [l for l in idata if not l.endswith(' same')][0], '')
        if why:
            stats['oracle_failures'] += 1
            kind = (why[1].split() or ['open'])[0] if why[0].startswith('line') else why[0].split()[0]
            rc = ''
            if why[0].startswith('line') and why[1].startswith('open '):
                rc = ':' + why[1].split()[1]
            key = 'valid-file:cdf%d:%s%s' % (f.fmt, kind, rc)
            o = oracle_fails.setdefault(key, dict(n=0, first=None))
            o['n'] += 1
            if o['first'] is None:
                o['first'] = (c, f, data, why, lines, truth)
            continue
        # ---------- correspondence with the extracted model
        bad = None
        if m is None or m['result'] != ['ok']:
            bad = 'model result %s' % (m['result'] if m else None)
        elif m['flat'] != 'same':
            bad = 'chunked and flat reader differ (contradicts chunk_decode_eq_flat)'
        elif m['valid'] != '1':
            bad = 'generated file is not c04_valid'
        elif m['expected'] != 'same':
            bad = 'model result differs from expected_open (contradicts reader_accepts_valid)'
        elif m['consistent'] != '1':
            bad = 'accepted header not consistent'
        else:
            md = m['dump']
            d = L.first_diff(lines, md)
            if d and c['np'] > 1 and d[1].startswith('sizes ') and d[1].split()[:-1] == d[2].split()[:-1] \
               and int(d[1].split()[-1]) == m['cost']['offset']:
                # OpenMPI/ompio: a COLLECTIVE read that hits end of file reports the requested count
                # (MPI_Get_count), so ncp->get_size is the final offset instead of the bytes in the file
                stats['collective_read_count_anomalies'] = stats.get('collective_read_count_anomalies', 0) + 1
                d = L.first_diff(L.mask_getsize(lines), L.mask_getsize(md))
            if d:
                bad = 'dump line %d: implementation `%s` model `%s`' % (d[0], d[1][:200], d[2][:200])
        if bad:
            stats['model_disagreements'] += 1
            disagreements.append((c, bad))

    for key, o in sorted(oracle_fails.items()):
        c, f, data, why, lines, truth = o['first']
        ctx.violation('a specification-valid CDF-%d file is not read back exactly (%d case(s) with this key; first: %s chunk=%s np=%d): %s; '
                      'implementation `%s`, encoded content `%s`' % (f.fmt, o['n'], c['name'], c['chunk'], c['np'], why[0], why[1], why[2]),
                      dict(file_hex=data.hex() if len(data) <= 65536 else None, generator=c['name'], chunk=c['chunk'],
                           nprocs=c['np'], hints=c['hints'], flags=c['flags'], implementation=lines[:60], expected=truth[:60],
                           cases_with_this_key=o['n'],
                           how_to_replay='write file_hex to a file F; PNETCDF_VERIF_HDR_CHUNK=<chunk> [mpiexec -n <nprocs>] '
                                         'c04_open F [-h <hint>] [-i]; compare with `expected`'),
                      key=key)
    stats['wall_s'] = round(time.time() - t0, 1)
    ctx.cov['rule'] = ('files from tools/c04_gen.py (random schemas in 3 formats with free layout choices; fixed schema for the '
                       'exhaustive chunk/shift sweeps; >=600KiB headers in the thorough tier); a case = (file, chunk, ranks, hints); '
                       'non-trivial = the file has variables or its header spans more than one chunk')
    ctx.cov['distribution'] = stats

    # ---------- verdict protocol, case 2: proof or correspondence broken while the oracle passes
    broken = []
    if not proof_ok:
        broken.append('theorem(s) of Properties_C04.v no longer check: %s' % ', '.join(pr['failed'])[:400])
    if ties:
        broken.append('static tie(s) of the reader model to the sources broken: ' + '; '.join(ties)[:600])
    if disagreements:
        c, bad = disagreements[0]
        broken.append('correspondence corr_C04_dump (extracted reader model vs implementation) differs in %d of %d cases; first: %s [%s chunk=%s np=%d]'
                      % (len(disagreements), len(cases), bad, c['name'], c['chunk'], c['np']))
    if broken and not ctx.violations and not ctx.known_hit:
        found = search(ctx, exe, wd, 300 if not thorough else 1500)
        if not found:
            rep = dict(relation=broken, proof_log=pr['log'][-3000:] if not proof_ok else '',
                       note='no valid file was found that the implementation reads back wrongly; the property is no longer shown to hold')
            if disagreements:
                c, bad = disagreements[0]
                f, p, data = files[c['name']]
                rep.update(file_hex=data.hex() if len(data) <= 65536 else None, chunk=c['chunk'], nprocs=c['np'], hints=c['hints'],
                           disagreement=bad)
            ctx.violation('; '.join(broken)[:900], rep, no_input=True)


def search(ctx, exe, wd, n):
    """failing-input search with the oracle alone: more random valid files, small chunks"""
    cases = []; info = {}
    for k in range(n):
        r = ctx.rng.fork('search-%d' % k)
        f = G.gen_file(r, size_class=r.choice(['min', 'small', 'small', 'medium']))
        data = f.encode(r)
        p = os.path.join(wd, 'x%d.nc' % k)
        open(p, 'wb').write(data)
        ch = r.choice([36, 40, 44, 48, 64, 100, 128])
        tag = 'x%d' % k
        cases.append(dict(tag=tag, path=p, chunk=ch, maxdata=MAXDATA))
        info[tag] = (f, data, ch)
    res = L.run_batch(exe, cases, wd, jobs=8)
    for tag, (f, data, ch) in info.items():
        r = res.get(tag)
        truth = f.truth(maxdata=MAXDATA)
        d = ('status', r and r['status'], '') if (r is None or r['status'] != 'done') else L.first_diff(L.mask_getsize(r['lines']), truth)
        if d:
            ctx.violation('a specification-valid CDF-%d file is not read back exactly (found by the search): `%s` vs `%s`' % (f.fmt, d[1], d[2]),
                          dict(file_hex=data.hex(), chunk=ch, nprocs=1, expected=truth[:60]),
                          key='valid-file:cdf%d:%s' % (f.fmt, (str(d[1]).split() or ['open'])[0]))
            return True
    return False


def replay(ctx, d):
    lib = C.libdir()
    exe = L.harness_exe(lib)
    wd = C.scratch()
    if not d.get('file_hex'):
        print('replay needs file_hex'); return 2
    p = os.path.join(wd, 'replay.nc')
    open(p, 'wb').write(bytes.fromhex(d['file_hex']))
    r = L.run_impl(exe, p, chunk=d.get('chunk'), np_=d.get('nprocs', 1), hints=d.get('hints') or (), indep='i' in (d.get('flags') or ''))
    exp = d.get('expected') or []
    got = L.mask_getsize([l for l in r['lines'] if not l.startswith('idata ')])
    df = L.first_diff(got[:len(exp)], exp)
    print('\n'.join(r['lines'][:80]))
    print('DIFF:', df)
    return 1 if df else 0
