"""C18 Format size limits are enforced and 64-bit offsets are addressed correctly.
Theorems (Properties_C18.v): the overflow-free size test (model of ncmpio_NC_check_vlen) is exact:
accepts iff xsz*prod(dims) <= limit over the integers, and no intermediate product exceeds the limit
(no int64 overflow); the two-pass variable scan (check_vlens) returns NC_NOERR iff the declarative rule
holds (CDF-5: none large; CDF-1/2: at most one large fixed variable, last, and then no record
variables; at most one large record variable, last), otherwise NC_EVARSIZE; thresholds 2^31-4,
2^32-4, 2^63-4 come from constants regenerated from the headers.  Element offsets beyond 2^31/2^32
are covered by C01's theorem, which is over unbounded integers.
Tie: API correspondence on definitions around each threshold in different orders (return code of
def_dim / enddef) and single-element writes/reads at first/last indices of huge (sparse) variables;
oracle: an independent statement of the size rule in Python + round trip of the elements."""
from pnc import api_check, size_gen, common as C, session as SS

LEVEL = 'proof'
ASSUMPTIONS = ['MPI-IO / POSIX modelled, not verified', 'sparse files: only single elements of huge variables are touched']


def run(ctx):
    def judge(sess, r):
        return SS.judge(sess, r, check_frame=False) + size_gen.judge_size(sess, r) + size_gen.judge_reclimit(sess, r)
    gens = [('size', dict(fn=lambda rng: size_gen.gen_size_session(rng), share=3)),
            ('wide', dict(fn=lambda rng: size_gen.gen_wide_session(rng), share=1)),
            ('reclimit', dict(fn=lambda rng: size_gen.gen_reclimit_session(rng), count=(4, 24)))]
    api_check.run_api_check(ctx, gens, None, n_quick=35, n_thorough=400, judge=judge,
                            gens_translators=('consts', 'vlens'))
