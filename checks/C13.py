"""C13 Caller buffers are respected; attached-buffer accounting is exact.

PROOF (coq/Properties_C13.v, lemmas in Proofs_Abuf.v) about the executable models coq/Abuf.v (attached buffer pool of
ncmpio_bput.c / ncmpio_abuf_malloc / abuf_coalesce; ncmpii_in_swapn; the in-place-swap decision of put_varm /
igetput_varm / igetput_varn; ncmpio_unpack_xbuf) and coq/Nonblocking.v (the three exits: wait, cancel, close):
swap_involutive, put_buffer_restored and every exit swaps back exactly the flagged buffers, bput_captures_at_post,
get_writes_only_selected (frame lemma over the positions of buftype o imap), einsuffbuf_iff, usage_ge_pending /
no over-commitment, usage_eq_pending under LIFO completion; the full statements usage_eq_pending and "refused iff
no room for the pending bytes" are REFUTED on the model (witness = finding F7).

TIE: correspondence. (1) harness/c13_buf.c looks at the caller's buffer right after the posting call, after each kind of
exit, scribbles over the buffer of a buffered put before the wait and reads the variable back: sizes on both sides of
NC_BYTE_SWAP_BUFFER_SIZE, all types, typed/flexible/vector layouts, derived buffer types without gaps (contiguous(k),
nested contiguous, contiguous of vector(2,bl,bl), arrays of padded records resized(contiguous(bl),0,st) with bufcount > 1: element count bnelems <> buftype count bufcount), collective and independent
blocking puts, transposing imap on the get side, hints
nc_in_place_swap enable/disable/auto; compared with Abuf.put_swaps_user_buf / in_swapn / unpack_xbuf evaluated in Coq.
(2) random attach/bput/iput/iget/wait/cancel/detach/inq_buffer histories through harness/pnc_impl.c compared with the
model run by coq/NbRun.v: return codes (NC_EINSUFFBUF, NC_EPENDINGBPUT, ...), usage and size, buffers incl. guard
zones at every dump.  ORACLE on the implementation alone: buffers unchanged after the exit, guards and gaps intact,
data captured at post, usage = bytes of pending buffered puts, refusal iff the pending bytes leave no room."""
import time
from pnc import nb_check, c13_buf as B, common as C

LEVEL = 'proof'
ASSUMPTIONS = [
    'MPI_Pack/MPI_Unpack through a derived datatype modelled by the element positions of its type map',
    'value conversion is a parameter of the unpack model (C09 is about the conversion)',
    'occupy_table modelled as the list of its live entries [0,tail); table growth and NCI_Malloc failures not modelled',
    'little-endian host',
]

MIX_QUICK = [('abuf', 70, {'profile': 'abuf'}), ('mixed', 40, {}), ('big', 5, {'big': True})]
MIX_THOROUGH = [('abuf', 1500, {'profile': 'abuf'}), ('mixed', 700, {}), ('big', 70, {'big': True})]


def buffer_cases(ctx, lib, wd):
    nput, nget = (420, 160) if ctx.tier == 'quick' else (3600, 1200)
    cases = B.gen_cases(ctx.rng.fork('c13buf'), nput, nget)
    t0 = time.time()
    rc, out, res = B.run_harness(lib, cases, wd)
    mod = B.model_predictions(cases, wd, max_swap_images=60 if ctx.tier == 'quick' else 300)
    stats = dict(cases=len(cases), harness_rc=rc, swapped_in_flight=0, oracle_failures=0, model_disagreements=0,
                 apis={}, exits={}, layouts={}, wall_s=0)
    fails = []; mism = []
    for c in cases:
        t = res.get(c['id'])
        ctx.count(B.case_line(c), nontrivial=t is not None)
        stats['apis'][c['api']] = stats['apis'].get(c['api'], 0) + 1
        stats['layouts'][c['layout'][0]] = stats['layouts'].get(c['layout'][0], 0) + 1
        if c['kind'] == 'P':
            stats['exits'][c['exit']] = stats['exits'].get(c['exit'], 0) + 1
            if t is not None and len(t) > 5 and t[5] != 'same':
                stats['swapped_in_flight'] += 1
        f = B.judge(c, t)
        m = B.compare(c, t, mod.get(c['id']))
        if f:
            fails.append((c, f)); stats['oracle_failures'] += 1
        elif m:
            mism.append((c, m)); stats['model_disagreements'] += 1
    stats['wall_s'] = round(time.time() - t0, 1)
    seen = set()
    for c, f in fails:
        kind, key, detail = f[0]
        if key in seen:
            continue
        seen.add(key)
        ctx.violation('%s: %s' % (kind, detail), dict(case=B.case_line(c), how_to_replay='echo "<case>" > cases.txt; build/lib-*/h-c13_buf-* cases.txt <dir> out.txt; cat out.txt (format: header of harness/c13_buf.c)'), key=key)
    if mism and not fails:
        c, m = mism[0]
        ctx.violation('correspondence %s (library vs Abuf.v) differs in %d of %d buffer cases; first: %s' % (m[0][0], len(mism), len(cases), m[0][1]),
                      dict(case=B.case_line(c), note='the specification oracle passes on every case: no failing input found'), no_input=True)
    return stats


def run(ctx):
    nb_check.run_nb_check(ctx, MIX_QUICK, MIX_THOROUGH, extra=buffer_cases)
