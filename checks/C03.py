"""C03 Files written conform to the classic CDF-1/2/5 format.
Theorems: specification decoder (written from the grammar only) inverts the header encoder for every
well-formed header, with arbitrary trailing bytes; encoder output is strictly valid; header length
function = encoded length, multiple of 4.  Tie: the extracted model predicts the header byte for
byte (API correspondence incl. snapshots); format oracle = the implementation's files decoded by
the extracted specification decoder and compared with what the script defined, plus the library's
own reports (header size/extent, offsets, numrecs) vs the file, alignment requests honoured."""
from pnc import api_check, meta_gen, common as C, session as SS

LEVEL = 'proof'
ASSUMPTIONS = ['MPI-IO / POSIX modelled, not verified', 'utf8proc NFC not exercised (ASCII names here; see C07)']


def run(ctx):
    model = C.model_exe()
    wd = C.scratch()
    def judge(sess, r):
        return SS.judge(sess, r) + meta_gen.judge_meta(sess, r, model, wd) + meta_gen.judge_datamode_atts(sess, r)
    gens = [('meta', dict(fn=lambda rng: meta_gen.gen_meta_session(rng), share=1)),
            ('bigvar', dict(fn=lambda rng: meta_gen.gen_bigvar_meta_session(rng), count=(8, 60)))]
    api_check.run_api_check(ctx, gens, None, n_quick=100, n_thorough=1500, judge=judge,
                            gens_translators=('consts', 'begins'))
