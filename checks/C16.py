"""C16 Fill-value semantics.
Theorems (Properties_C16.v): the per-rank partition used when filling at enddef tiles every variable
exactly for all lengths and process counts; the fill plan addresses only NEW fill-mode variables
(fixed: whole variable; record: each existing record), covering each element exactly once; filling
changes no byte outside those extents (old and no-fill variables are never overwritten).
Tie: API correspondence (the extracted model runs the same fill_share / fill_plan definitions) on fill
sessions; oracle on the implementation: never-written elements of fill-mode variables read as the fill
value, written data survives redefinition with filling, no-fill variables are not touched."""
from pnc import api_check, fill_gen, meta_gen, common as C, session as SS

LEVEL = 'proof'
ASSUMPTIONS = ['MPI-IO / POSIX modelled, not verified']


def run(ctx):
    model = C.model_exe()
    wd = C.scratch()
    def judge(sess, r):
        return SS.judge(sess, r) + fill_gen.judge_fill(sess, r)
    gens = [('fill', dict(fn=lambda rng: fill_gen.gen_fill_session(rng), share=1))]
    api_check.run_api_check(ctx, gens, None, n_quick=120, n_thorough=1500, judge=judge)
