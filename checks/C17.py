"""C17 File handles and library resources have a clean lifecycle.

PROVED (coq/Properties_C17.v, model coq/Files.v of pnc_filelist / pnc_numfiles / new_id_PNCList /
del_from_PNCList / PNC_check_id and of the exits of ncmpi_create / ncmpi_open / ncmpi_close / ncmpi_abort,
for EVERY history with arbitrary ids): table invariant, ids valid exactly between the create/open that
returned them and the close/abort that released them, first-free reuse, NC_MAX_NFILES files then NC_ENFILE,
independence of slots; check_id soundness and crash freedom for the check WITH a NULL-slot test, their
REFUTATION for the check as written (F8) with the partial statement, and the verdict for the sources as
built (switches read from file.c by tools/tr_modes.py); accounting of the PNC object of a refused
create/open; close reports and cancels pending requests (from the C14 model).

TIE (id table): histories of create/open (succeeding, NC_EEXIST, missing file, not a netCDF file, corrupt
header), close, abort, API calls of many families and nonblocking posts with valid, stale, never-used,
negative and huge ids are run through harness/pnc_impl on the real library and through the model
(vm_compute of Files.run_codes on the same histories written as Coq terms); every return code and every
returned ncid is compared.  A history for which the model predicts the NULL dereference is run in its own
process; a crash of the implementation there is a violation of the property ('check_id:null-slot').
harness/c17_limit opens NC_MAX_NFILES files for real.

OBSERVED, NOT PROVED (resources): the same histories, a list of named scenarios (every early exit we know of)
and a sample of mode-machine scripts are run on a library configured with --enable-debug (heap:
ncmpi_inq_malloc_size must be 0 at MPI_Finalize) with harness/c17_shim.c interposed on PMPI (datatype,
communicator, info, file-handle constructors vs. frees must balance)."""
import os, re, sys, time, json, shutil, hashlib
import concurrent.futures as cf
from pnc import common as C, scripts as S

LEVEL = 'proof'
ASSUMPTIONS = [
    'PROOF covers the ncid table only; heap and MPI-object balances are observations on the histories that were run (exploration level)',
    'create/open outcomes (success, early failure, driver failure) are inputs of the model; the file system decides them in the runs',
    'one process; the table is per process (no thread safety: ENABLE_THREAD_SAFE is off in this build)',
    'MPI objects held by the MPI library itself and datatypes returned by MPI_Type_get_contents are not counted',
    'modelled, not verified: OpenMPI/ROMIO, POSIX file system, C compiler',
]
CHECKER_CMD = ('tools/tr_consts.py + tools/tr_modes.py && coq_makefile -f _CoqProject -o Makefile && make -k -j16 Properties_C17.vo && '
               'coqc -Q . Pnc Properties_C17.v (Print Assumptions); model runs: coqc of generated cases files (Eval vm_compute)')

NOERR, EBADID, ENFILE, EEXIST, ENOENT, ENOTNC, EPENDING, EFILE = 0, -33, -34, -35, -220, -51, -236, -204
MAXF = 1024


def hx(s):
    return s.encode().hex()


# ------------------------------------------------------------------ histories
class Ev:
    """kind: create|open|close|abort|api|post ; for create/open: fslot, outcome ('ok'|'early:<rc>'|'driver:<rc>'), lines;
    for the others: id, lines"""
    def __init__(self, kind, coq, lines, cmp_line, what):
        self.kind = kind; self.coq = coq; self.lines = lines; self.cmp = cmp_line; self.what = what


API_OK = ['inq_nreqs 7', 'inq 7', 'inq_numrecs 7', 'inq_name 7 v %s' % hx('v')]
API_ANY = ['inq_nreqs 7', 'inq 7', 'sync 7', 'redef 7', 'enddef 7', 'put 7 c 0 var1 t4 c 1 0 pat 1', 'get 7 i 0 var1 t4 c 1 0',
           'def_dim 7 %s 3' % hx('q'), 'put_att 7 -1 %s 4 1 5' % hx('a'), 'wait 7 c -1', 'wait 7 i 0', 'begin_indep 7', 'end_indep 7',
           'attach 7 100', 'detach 7', 'fill_var_rec 7 0 0', 'inq_var_fill 7 0', 'flush 7', 'cancel 7 -1', 'set_fill 7 0',
           'rename_var 7 0 %s' % hx('w'), 'del_att 7 -1 %s' % hx('a'), 'get_att 7 -1 %s' % hx('a'), 'sync_numrecs 7',
           'inq_buffer 7', 'iput 7 9 0 var1 t4 c 1 0 pat 1', 'iget 7 10 0 var1 t4 c 1 0', 'bput 7 11 0 var1 t4 c 1 0 pat 2',
           'def_var 7 %s 4 0' % hx('s'), 'rename_dim 7 0 %s' % hx('y'), '_enddef 7 0 0 0 0', 'inq_attid 7 -1 %s' % hx('a'),
           'def_var_fill 7 0 0 0 0', 'copy_att 7 -1 %s 7 -1' % hx('a')]


class Gen:
    """generator with a replica of the table (first-free) to know which literal id to pass; the replica only
    chooses inputs — predictions come from the Coq model"""
    NF = 5            # file slots 0..4 = real files; 5 = never created (missing); 6 = junk; file 'c' corrupt via slot 6 variants
    def __init__(self, rng, allow_crash):
        self.rng = rng
        self.tab = {}                 # id -> fslot
        self.origin = {}; self.pending = {}; self.features = set()
        self.exists = [False] * self.NF
        self.evs = []
        self.rs = 0
        self.closed_ids = []
        self.allow_crash = allow_crash
        self.dead = False
        self.napi = 0
    def first_free(self):
        i = 0
        while i in self.tab:
            i += 1
        return i
    def open_slots(self):
        return set(self.tab.values())
    def add(self, kind, coq, lines, cmp_line, what):
        self.evs.append(Ev(kind, coq, lines, cmp_line, what))
    def ev_create(self):
        r = self.rng
        free = [k for k in range(self.NF) if k not in self.open_slots()]
        if not free:
            return False
        k = r.choice(free)
        if self.exists[k] and r.chance(1, 3):
            self.add('create', 'ECreate (ODriver NC_EEXIST)', ['* create %d 1 0' % k], 0, 'create NOCLOBBER on an existing file')
            return True
        clobber = 1 if self.exists[k] else r.choice([0, 1])
        i = self.first_free()
        self.tab[i] = k; self.exists[k] = True; self.origin[i] = 'create'; self.pending[i] = 0
        fmt = r.choice([1, 2, 5])
        self.add('create', 'ECreate OOk', ['* create %d %d %d' % (k, fmt, clobber),
                                         '* def_dim %d %s 4' % (k, hx('x')), '* def_var %d %s 4 1 0' % (k, hx('v'))], 0, 'create')
        return True
    def ev_open(self):
        r = self.rng
        c = r.below(10)
        if c == 0:
            self.add('open', 'EOpen (OEarly NC_ENOENT)', ['* open 5 %d' % r.choice([0, 1])], 0, 'open of a missing file')
            return True
        if c == 1:
            self.add('open', 'EOpen (OEarly NC_ENOTNC)', ['* junk 6 64 %d' % r.below(200), '* open 6 0'], 1, 'open of a file that is not netCDF')
            return True
        if c == 2:
            self.add('open', 'EOpen (OEarly NC_EFILE)', ['* junk 6 5 1', '* open 6 1'], 1, 'open of a 5-byte file')
            return True
        cand = [k for k in range(self.NF) if self.exists[k] and k not in self.open_slots()]
        if not cand:
            return False
        k = r.choice(cand)
        i = self.first_free()
        rw = r.choice([0, 1])
        self.tab[i] = k; self.origin[i] = 'open' if rw else 'open-ro'; self.pending[i] = 0
        self.add('open', 'EOpen OOk', ['* open %d %d' % (k, rw)], 0, 'open')
        return True
    def pick_id(self, want_valid):
        r = self.rng
        if want_valid:
            return r.choice(sorted(self.tab)) if self.tab else None
        c = r.below(6)
        if c == 0: return -1 - r.below(5)
        if c == 1: return r.choice([MAXF, MAXF + 1, 2 ** 31 - 1, 4096, -2 ** 31])
        if c == 2 and self.closed_ids: return r.choice(self.closed_ids)          # stale
        if c == 3: return self.first_free() + r.below(3)                          # never used (or stale)
        if c == 4: return r.choice([MAXF - 1, MAXF - 2, 500])
        return r.choice(self.closed_ids) if self.closed_ids else self.first_free()
    def risky(self, i):
        """as the code is written: an in-range id whose slot is empty while some file is open"""
        return 0 <= i < MAXF and i not in self.tab and len(self.tab) > 0
    def ev_idop(self):
        r = self.rng
        valid = r.chance(3, 5) and bool(self.tab)
        i = self.pick_id(valid)
        if i is None:
            return False
        if not valid and self.risky(i):
            if not self.allow_crash:
                return False
            self.dead = True         # the model decides; generation stops here either way
        kind = r.choice(['api', 'api', 'api', 'post', 'close', 'close', 'abort'])
        pre = '* setid 7 %d' % i
        if kind == 'api':
            self.napi += 1
            l = (API_OK[self.napi % len(API_OK)] if i in self.tab else API_ANY[(self.napi * 7 + r.below(3)) % len(API_ANY)])
            self.add('api', 'EApi (%d)' % i, [pre, '* ' + l], 1, l.split()[0] + (' on id %d' % i))
        elif kind == 'post':
            self.rs = (self.rs + 1) % 60
            if i in self.tab:
                self.pending[i] += 1
                if self.origin.get(i) == 'open-ro':
                    self.add('post', 'EPost (%d)' % i, [pre, '* iget 7 %d 0 var1 t4 c 1 0' % self.rs], 1, 'iget on id %d' % i)
                else:
                    self.add('post', 'EPost (%d)' % i, [pre, '* iput 7 %d 0 var1 t4 c 1 0 pat 3' % self.rs], 1, 'iput on id %d' % i)
            else:
                self.add('api', 'EApi (%d)' % i, [pre, '* iput 7 %d 0 var1 t4 c 1 0 pat 3' % self.rs], 1, 'iput on id %d' % i)
        else:
            self.add(kind, '%s (%d)' % ('EClose' if kind == 'close' else 'EAbort', i), [pre, '* %s 7' % kind], 1, '%s of id %d' % (kind, i))
            if i in self.tab:
                k = self.tab.pop(i)
                self.closed_ids.append(i)
                if self.pending.get(i, 0) > 0:
                    self.features.add('%s-with-pending' % kind)
                # abort of a handle that came from create (never enddef'ed here) deletes the file
                if kind == 'abort' and self.origin.get(i) == 'create':
                    self.exists[k] = False
        return True
    def finish(self):
        # also after a use of an empty slot (self.dead): if the library survives it (repaired check), the files must
        # still be closed; if it does not, the process is gone before these lines
        for i in sorted(self.tab):
            if self.pending.get(i, 0) > 0:
                self.features.add('close-with-pending')
            self.add('close', 'EClose (%d)' % i, ['* setid 7 %d' % i, '* close 7'], 1, 'final close of id %d' % i)
        self.tab = {}
        # with nothing open every id is refused without a crash
        for i in (0, 1, -1, MAXF, 7):
            self.add('api', 'EApi (%d)' % i, ['* setid 7 %d' % i, '* inq_nreqs 7'], 1, 'inq_nreqs on id %d, no file open' % i)


def gen_history(rng, n, allow_crash):
    g = Gen(rng, allow_crash)
    tries = 0
    while len(g.evs) < n and not g.dead and tries < 10 * n:
        tries += 1
        c = rng.below(10)
        if c < 2: g.ev_create()
        elif c < 4: g.ev_open()
        else: g.ev_idop()
    g.finish()
    return g.evs, g.features


def fixed_histories():
    """hand-written histories: the F8 witnesses and the boundary ids"""
    H = []
    def h(name, items):
        evs = []
        for kind, coq, lines, cmp_line, what in items:
            evs.append(Ev(kind, coq, lines, cmp_line, what))
        H.append((name, evs, {'close-pending': {'close-with-pending'}, 'abort-pending': {'abort-with-pending'}}.get(name, set())))
    cr = lambda k: ('create', 'ECreate OOk', ['* create %d 1 1' % k, '* def_dim %d %s 4' % (k, hx('x')), '* def_var %d %s 4 1 0' % (k, hx('v'))], 0, 'create')
    def op(kind, i, line=None):
        coq = {'api': 'EApi', 'close': 'EClose', 'abort': 'EAbort', 'post': 'EPost'}[kind]
        l = line or {'api': 'inq_nreqs 7', 'close': 'close 7', 'abort': 'abort 7', 'post': 'iput 7 1 0 var1 t4 c 1 0 pat 1'}[kind]
        return (kind, '%s (%d)' % (coq, i), ['* setid 7 %d' % i, '* ' + l], 1, '%s on id %d' % (l.split()[0], i))
    h('stale-close-while-other-open', [cr(0), cr(1), op('close', 0), op('close', 0), op('close', 1)])
    h('stale-api-while-other-open', [cr(0), cr(1), op('close', 0), op('api', 0), op('close', 1)])
    h('never-used-id-while-other-open', [cr(0), op('api', 7), op('close', 0)])
    h('never-used-last-id-while-other-open', [cr(0), op('api', MAXF - 1, 'sync 7'), op('abort', 0)])
    h('stale-put-while-other-open', [cr(0), cr(1), op('abort', 1), op('api', 1, 'put 7 c 0 var1 t4 c 1 0 pat 1'), op('close', 0)])
    h('stale-after-all-closed', [cr(0), cr(1), op('close', 0), op('close', 1), op('api', 0), op('close', 1), op('abort', 0)])
    h('boundary-ids-while-open', [cr(0), op('api', -1), op('api', MAXF), op('api', 2 ** 31 - 1), op('api', -2 ** 31), op('close', MAXF),
                                  op('abort', -7), op('close', 0)])
    h('reuse-order', [cr(0), cr(1), cr(2), op('close', 1), cr(3), op('close', 0), op('close', 2), cr(4), op('api', 0), op('api', 1),
                      op('close', 0), op('close', 1)])
    h('close-pending', [cr(0), op('post', 0), op('post', 0), op('close', 0), op('api', 0)])
    h('abort-pending', [cr(0), op('post', 0), op('abort', 0), op('api', 0)])
    return H


# ------------------------------------------------------------------ model (Coq, vm_compute)
def model_results(hists, wd, tag):
    """hists: list of lists of Ev -> list of (list of (rc, ncid), numfiles, heap); None on failure"""
    txt = ['From Coq Require Import ZArith List.', 'From Pnc Require Import Gen_consts Files.', 'Import ListNotations.',
           'Local Open Scope Z_scope.', 'Set Printing Depth 10000000.', 'Set Printing Width 1000.',
           'Definition cases : list (list ev) := [']
    txt.append(';\n'.join('  [' + '; '.join(e.coq for e in h) + ']' for h in hists))
    txt.append('].')
    txt.append('Eval vm_compute in (map (fun h => (run_codes h, final_numfiles h, final_heap h)) cases).')
    name = 'Cases_%s' % tag
    open(os.path.join(wd, name + '.v'), 'w').write('\n'.join(txt) + '\n')
    rc, out = C.sh(['coqc', '-Q', C.COQ, 'Pnc', '-w', '-all', name + '.v'], cwd=wd, timeout=900)
    if rc != 0:
        return None, out[-1500:]
    body = out[out.index('='):]
    nums = [int(x) for x in re.findall(r'-?\d+', body.replace('%Z', ''))]
    res = []
    p = 0
    for h in hists:
        n = len(h)
        ev = [(nums[p + 2 * j], nums[p + 2 * j + 1]) for j in range(n)]
        p += 2 * n
        res.append((ev, nums[p], nums[p + 1]))
        p += 2
    if p != len(nums):
        return None, 'cannot parse the model output (%d of %d numbers consumed)' % (p, len(nums))
    return res, ''


# ------------------------------------------------------------------ running
CORRUPT = b'CDF\x01' + b'\xff' * 16


def script_of(evs, np_=1):
    L = ['nprocs %d' % np_, 'env PNETCDF_SAFE_MODE=0']
    where = []
    for e in evs:
        base = len(L)
        L.extend(e.lines)
        where.append(base + e.cmp + 1)
    return '\n'.join(L) + '\n', where


def run_impl(exe, script, wd, tag, env=None, np_=1, timeout=120):
    d = os.path.join(wd, tag)
    os.makedirs(d, exist_ok=True)
    sp = os.path.join(d, 'script.txt')
    open(sp, 'w').write(script)
    e = dict(os.environ) if np_ == 1 else {}
    e.update(PNC_DIR=d, PNC_OUT=os.path.join(d, 'out'))
    e['C17_REPORT'] = os.path.join(d, 'rep')
    if env:
        e.update(env)
    if np_ == 1:
        rc, out = C.sh([exe, sp], timeout=timeout, env=e, cwd=d)
    else:
        rc, out = C.mpirun(np_, exe, [sp], env=e, timeout=timeout, cwd=d)
    logs = []
    for r in range(np_):
        lg = {}
        lastline = None
        try:
            for line in open(os.path.join(d, 'out.%d' % r), errors='replace'):
                p = line.rstrip('\n').split(' ')
                if len(p) >= 4:
                    try:
                        lg[int(p[0])] = p[2:]
                    except ValueError:
                        pass
                elif len(p) == 3:
                    lastline = line.strip()
        except OSError:
            pass
        logs.append((lg, lastline))
    reps = []
    for r in range(np_):
        try:
            reps.append([l.strip() for l in open(os.path.join(d, 'rep.%d' % r)) if l.startswith('C17 ')])
        except OSError:
            reps.append([])
    shutil.rmtree(d, ignore_errors=True)
    return rc, out, logs, reps


def parse_report(line):
    d = {}
    for t in line.split()[1:]:
        k, v = t.split('=')
        if '/' in v:
            a, b = v.split('/')
            d[k] = (int(a), int(b))
        else:
            d[k] = int(v)
    return d


def leaks_of(rep, debug):
    """-> list of (kind, detail)"""
    out = []
    if debug and rep.get('heap', 0) != 0:
        out.append(('heap', '%d bytes still allocated at MPI_Finalize' % rep['heap']))
    if rep.get('files', 0) != 0:
        out.append(('table', '%d ncids still open' % rep['files']))
    for k, nm in (('types', 'mpi-type'), ('comms', 'mpi-comm'), ('infos', 'mpi-info'), ('fh', 'mpi-file')):
        a, b = rep.get(k, (0, 0))
        if a != b:
            out.append((nm, '%d created, %d freed' % (a, b)))
    return out


# ------------------------------------------------------------------ named resource scenarios (observed part)
def scenarios():
    x, v, r_, t = hx('x'), hx('v'), hx('r'), hx('t')
    base = ['* create 0 1 1', '* def_dim 0 %s -1' % t, '* def_dim 0 %s 4' % x, '* def_var 0 %s 4 1 1' % v, '* def_var 0 %s 4 2 0 1' % r_,
            '* put_att 0 -1 %s 4 1 5' % hx('a')]
    S_ = []
    def sc(name, lines, np_=1, pre=None, env=None):
        S_.append(dict(name=name, lines=lines, np=np_, pre=pre, env=env))
    sc('plain', base + ['* enddef 0', '* put 0 c 0 vara t4 c 1 0 4 pat 1', '* get 0 c 0 var t4 c', '* close 0'])
    sc('close-in-define-mode', base + ['* close 0'])
    sc('close-with-attached-buffer', base + ['* enddef 0', '* attach 0 4096', '* close 0'])
    sc('close-with-pending-bput', base + ['* enddef 0', '* attach 0 4096', '* bput 0 1 0 vara t4 c 1 0 4 pat 1', '* close 0'])
    sc('close-with-pending-iput-iget', base + ['* enddef 0', '* iput 0 1 0 vara t4 c 1 0 4 pat 1', '* iget 0 2 0 vara t4 c 1 0 4',
                                              '* iput 0 3 1 vara x4 v 2 1 2 2 0 0 1 2 pat 2', '* close 0'])
    sc('abort-with-pending-iput', base + ['* enddef 0', '* iput 0 1 0 vara t4 c 1 0 4 pat 1', '* abort 0'])
    sc('abort-with-pending-iget', base + ['* enddef 0', '* iget 0 1 0 vara t4 c 1 0 4', '* abort 0'])
    sc('abort-with-attached-buffer', base + ['* enddef 0', '* attach 0 4096', '* abort 0'])
    sc('abort-new-file', base + ['* abort 0'])
    sc('abort-after-redef', base + ['* enddef 0', '* redef 0', '* def_var 0 %s 4 1 1' % hx('w'), '* abort 0'])
    sc('abort-in-indep-mode', base + ['* enddef 0', '* begin_indep 0', '* put 0 i 0 vara t4 c 1 0 4 pat 1', '* abort 0'])
    sc('create-noclobber-existing', base + ['* enddef 0', '* close 0', '* create 0 1 0', '* create 0 1 0'])
    sc('open-missing', ['* open 5 0', '* open 5 1'])
    sc('open-not-netcdf', ['* junk 6 64 3', '* open 6 0', '* junk 6 5 3', '* open 6 1'])
    sc('open-corrupt-header', ['* open 4 0', '* open 4 1'], pre='corrupt4')
    sc('enddef-fails-varsize', ['* create 0 1 1', '* def_dim 0 %s 2147483000' % x, '* def_var 0 %s 6 1 0' % v, '* def_var 0 %s 6 1 0' % hx('w'),
                                '* enddef 0', '* close 0'])
    sc('redef-grows-header', base + ['* enddef 0', '* put 0 c 0 vara t4 c 1 0 4 pat 1', '* put 0 c 1 vara t4 c 2 0 0 2 4 pat 2', '* redef 0',
                                     '* put_att 0 -1 %s 2 600 %s' % (hx('big'), ' '.join(['65'] * 600)), '* def_var 0 %s 5 2 0 1' % hx('n'),
                                     '* enddef 0', '* close 0'])
    sc('fill-mode', ['* create 0 5 1', '* set_fill 0 0', '* def_dim 0 %s -1' % t, '* def_dim 0 %s 4' % x, '* def_var 0 %s 4 1 1' % v,
                     '* def_var 0 %s 6 2 0 1' % r_, '* def_var_fill 0 1 0 1 7', '* enddef 0', '* fill_var_rec 0 1 0', '* fill_var_rec 0 1 3', '* close 0'])
    sc('strided-mapped-varn', base + ['* enddef 0', '* put 0 c 1 vars t4 c 2 0 0 2 2 1 2 pat 1', '* put 0 c 1 varm t4 c 2 0 0 2 2 1 2 1 2 pat 2',
                                      '* get 0 c 1 varm t4 c 2 0 0 2 2 1 1 1 2', '* put 0 c 1 varn t4 c 2 2 0 0 1 2 2 2 1 2 pat 3',
                                      '* get 0 c 1 varn t4 c 2 2 0 0 1 2 2 2 1 2', '* iput 0 1 1 varn t4 c 2 2 4 0 1 2 5 2 1 2 pat 4',
                                      '* iget 0 2 1 vars t4 c 2 0 0 2 2 1 2', '* wait 0 c -1', '* close 0'])
    sc('flexible-vector-buffers', base + ['* enddef 0', '* put 0 c 0 vara x4 v 2 1 3 1 0 2 pat 1', '* get 0 c 0 vara x4 v 2 1 3 1 0 2',
                                          '* put 0 c 0 vara x6 c 2 1 0 2 pat 5', '* iput 0 1 0 vara x4 v 2 1 3 1 2 2 pat 2', '* wait 0 c -1', '* close 0'])
    sc('rejected-data-calls', base + ['* enddef 0', '* put 0 c 99 vara t4 c 1 0 4 pat 1', '* put 0 c 0 vara t4 c 1 3 4 pat 1', '* put 0 c 0 vara t4 c 1 -1 1 pat 1',
                                      '* get 0 c 1 vara t4 c 2 9 0 1 4', '* put 0 c 0 vars t4 c 1 0 2 0 pat 1', '* put 0 i 0 vara t4 c 1 0 4 pat 1',
                                      '* iput 0 1 0 vara t4 c 1 3 4 pat 1', '* iput 0 2 99 vara t4 c 1 0 4 pat 1', '* put 0 c 0 vara x4 c 3 1 0 4 pat 1',
                                      '* put 0 c 1 varn t4 c 1 2 0 9 1 1 pat 1', '* get 0 c 1 var t2 c', '* wait 0 c 2 5 6', '* cancel 0 1 7', '* close 0'])
    sc('rejected-define-calls', base + ['* def_dim 0 %s 4' % x, '* def_dim 0 %s -1' % hx('u'), '* def_var 0 %s 4 1 1' % v, '* def_var 0 %s 4 1 9' % hx('w'),
                                        '* def_var 0 %s 99 0' % hx('w'), '* put_att 0 9 %s 4 1 5' % hx('a'), '* put_att 0 -1 %s 99 1 5' % hx('b'),
                                        '* rename_var 0 0 %s' % r_, '* rename_dim 0 9 %s' % hx('q'), '* del_att 0 -1 %s' % hx('zz'),
                                        '* def_var_fill 0 9 0 0 0', '* enddef 0', '* def_dim 0 %s 3' % hx('q'), '* redef 0', '* redef 0', '* close 0'])
    sc('attributes', base + ['* put_att 0 0 %s 2 3 65 66 67' % hx('s'), '* put_att 0 0 %s 6 2 1 2' % hx('d'), '* rename_att 0 0 %s %s' % (hx('s'), hx('s2')),
                             '* copy_att 0 0 %s 0 1' % hx('d'), '* del_att 0 0 %s' % hx('d'), '* enddef 0', '* put_att 0 -1 %s 4 1 9' % hx('a'),
                             '* get_att 0 0 %s' % hx('s2'), '* close 0', '* open 0 0', '* get_att 0 1 %s' % hx('d'), '* inq 0', '* close 0'])
    sc('hints', ['hint nc_header_align_size 1024', 'hint nc_var_align_size 64', 'hint romio_cb_write enable', '* create 0 2 1'] + base[1:] +
       ['* enddef 0', '* close 0', 'hint nc_header_read_chunk_size 256', '* open 0 1', '* redef 0', '* enddef 0', '* close 0'],
       env={'PNETCDF_HINTS': 'nc_record_align_size=8;nc_in_place_swap=disable'})
    sc('many-files-out-of-order', ['* create 0 1 1', '* create 1 2 1', '* create 2 5 1', '* create 3 1 1', '* close 1', '* enddef 0', '* create 1 1 1',
                                   '* abort 3', '* close 0', '* open 0 0', '* close 2', '* close 1', '* close 0'])
    sc('sync-and-modes', base + ['* enddef 0', '* sync 0', '* begin_indep 0', '* put 0 i 1 vara t4 c 2 1 0 1 4 pat 1', '* sync 0', '* sync_numrecs 0',
                                 '* end_indep 0', '* begin_indep 0', '* redef 0', '* enddef 0', '* flush 0', '* close 0'])
    sc('safe-mode', base + ['* enddef 0', '* put 0 c 0 vara t4 c 1 0 4 pat 1', '* put 0 c 99 vara t4 c 1 0 4 pat 1', '* redef 0', '* def_dim 0 %s 2' % hx('k'),
                            '* enddef 0', '* close 0'], env={'PNETCDF_SAFE_MODE': '1'})
    # 2 ranks: independent file handle, collective header writes, record growth
    sc('np2-indep-close', base + ['* enddef 0', '* begin_indep 0', '0 put 0 i 0 vara t4 c 1 0 2 pat 1', '1 put 0 i 0 vara t4 c 1 2 2 pat 1', '* close 0'], np_=2)
    sc('np2-pending-close', base + ['* enddef 0', '0 iput 0 1 0 vara t4 c 1 0 2 pat 1', '1 iput 0 1 0 vara t4 c 1 2 2 pat 1', '* close 0'], np_=2)
    sc('np2-abort-pending', base + ['* enddef 0', '0 iput 0 1 0 vara t4 c 1 0 2 pat 1', '1 iget 0 1 0 vara t4 c 1 2 2', '* abort 0'], np_=2)
    sc('np2-failing-create-open', base + ['* enddef 0', '* close 0', '* create 0 1 0', '* open 5 0', '* open 0 0', '* close 0'], np_=2)
    sc('np2-rejected-collective', base + ['* enddef 0', '{', '0 put 0 c 0 vara t4 c 1 0 2 pat 1', '1 put 0 c 0 vara t4 c 1 3 4 pat 1', '}',
                                          '{', '0 put 0 c 99 vara t4 c 1 0 2 pat 1', '1 put 0 c 0 vara t4 c 1 2 2 pat 1', '}', '* close 0'], np_=2)
    return S_


# ------------------------------------------------------------------ the check
def run(ctx):
    lib = C.libdir()
    impl = S.impl_exe(lib)
    pr = C.prove(ctx.pid, gens=('consts', 'modes'), lib=lib)
    proof_ok = ctx.add_proof(pr, CHECKER_CMD)
    ctx.cov['trusted_base'] = list(C.TRUSTED_COMMON) + [
        'translator tools/tr_modes.py (shape of PNC_check_id / new_id_PNCList / del_from_PNCList, ENFILE exits of ncmpi_create / ncmpi_open)',
        'model runs by coqc Eval vm_compute on generated Cases_*.v; rendering of events to script lines in checks/C17.py',
        'harness/pnc_impl.c, harness/c17_limit.c, harness/c17_shim.c (PMPI interposition: counts are of calls made through the MPI_ API names)',
        'resource part: ncmpi_inq_malloc_size of a --enable-debug build (NCI_Malloc tracing of the library itself)']
    wd = C.scratch('c17.')
    thorough = ctx.tier == 'thorough'
    libd = C.libdir('debug')
    impl_shim = C.build_c(lib, [S.IMPL_SRC, os.path.join(C.VERIF, 'harness', 'c17_shim.c')], 'c17_impl')
    impl_dbg = C.build_c(libd, [S.IMPL_SRC, os.path.join(C.VERIF, 'harness', 'c17_shim.c')], 'c17_impl')
    limit = C.build_c(lib, [os.path.join(C.VERIF, 'harness', 'c17_limit.c'), os.path.join(C.VERIF, 'harness', 'c17_shim.c')], 'c17_limit')
    limit_dbg = C.build_c(libd, [os.path.join(C.VERIF, 'harness', 'c17_limit.c'), os.path.join(C.VERIF, 'harness', 'c17_shim.c')], 'c17_limit')

    # ------------- A. id table: histories, model, implementation
    hists = fixed_histories()
    nrand = 1200 if thorough else 160
    for i in range(nrand):
        rng = ctx.rng.fork('life-%d' % i)
        evs, feats = gen_history(rng, 12 + rng.below(30), allow_crash=(i % 4 == 0))
        hists.append(('life-%d' % i, evs, feats))
    models = []
    for j in range(0, len(hists), 300):
        res, err = model_results([h[1] for h in hists[j:j + 300]], wd, 'a%d' % j)
        if res is None:
            ctx.violation('corr_C17_model: the model could not be run on the generated histories', dict(error=err, relation='corr_C17_model'), no_input=True)
            return
        models += res
    stats = dict(histories=len(hists), events=0, by_kind={}, by_rc={}, predicted_crash=0, crashed=0, compared=0)
    mism, crashes, nocrash = [], [], []
    def one(k):
        name, evs, _ = hists[k]
        script, where = script_of(evs)
        rc, out, logs, reps = run_impl(impl_shim, script, wd, 'h%d' % k, timeout=120)
        return k, script, where, rc, out, logs, reps
    leak_hits = {}
    with cf.ThreadPoolExecutor(max_workers=8) as ex:
        for k, script, where, rc, out, logs, reps in ex.map(one, range(len(hists))):
            name, evs, _ = hists[k]
            mres, mnum, mheap = models[k]
            lg, lastline = logs[0]
            pred_crash = any(r == (-7777, -7777) for r in mres)
            ctx.count(name + ' ' + ' | '.join(e.coq for e in evs), nontrivial=any(r[0] != 0 for r in mres))
            stats['predicted_crash'] += pred_crash
            crashed = rc not in (0, -9)
            for e, ln, (mrc, mid) in zip(evs, where, mres):
                stats['events'] += 1
                stats['by_kind'][e.kind] = stats['by_kind'].get(e.kind, 0) + 1
                if mrc == -7777:
                    # the model says: NULL dereference. The implementation must have died on this very line
                    if ln in lg:
                        nocrash.append(dict(history=name, event=e.coq, what=e.what, impl=lg[ln][:3], script=script))
                    break
                t = lg.get(ln)
                if t is None:
                    if crashed or rc == -9:
                        crashes.append(dict(history=name, event=e.coq, what=e.what, rc=rc, script=script, predicted=False, detail=out[-400:]))
                    else:
                        mism.append(dict(history=name, event=e.coq, what='no log line', script=script))
                    break
                stats['compared'] += 1
                try:
                    irc = int(t[1])
                except ValueError:
                    irc = None
                stats['by_rc'][str(irc)] = stats['by_rc'].get(str(irc), 0) + 1
                bad = irc != mrc
                if e.kind in ('create', 'open'):
                    iid = int(t[2]) if len(t) > 2 else None
                    bad = bad or iid != mid
                if bad:
                    mism.append(dict(history=name, event=e.coq, what=e.what, impl=t[:3], model=[mrc, mid], script=script))
            if pred_crash and crashed:
                stats['crashed'] += 1
                crashes.append(dict(history=name, event=[e.coq for e, r in zip(evs, mres) if r[0] == -7777][0],
                                    what=[e.what for e, r in zip(evs, mres) if r[0] == -7777][0], rc=rc, script=script, predicted=True,
                                    detail=out[-300:]))
            if not crashed and rc == 0 and reps[0]:
                for kind, detail in leaks_of(parse_report(reps[0][-1]), debug=False):
                    feats = sorted(hists[k][2])
                    leak_hits.setdefault(('history:' + '+'.join(feats) if feats else 'history', kind), []).append(dict(history=name, detail=detail, script=script))
    # ------------- B. the real limit
    lim = {}
    for tag, exe, dbg in (('default', limit, False), ('debug', limit_dbg, True)):
        d = os.path.join(wd, 'lim-' + tag)
        os.makedirs(d, exist_ok=True)
        e = dict(os.environ); e.update(C17_REPORT=os.path.join(d, 'rep'), PNETCDF_SAFE_MODE='0')
        rc, out = C.sh([exe, d, '3'], timeout=900, env=e)
        obs = {}
        for l in out.split('\n'):
            p = l.split()
            if p and not l.startswith('Warning'):
                obs.setdefault(p[0], []).append(p[1:])
        rep = [l.strip() for l in open(os.path.join(d, 'rep.0'))] if os.path.exists(os.path.join(d, 'rep.0')) else []
        lim[tag] = dict(rc=rc, obs=obs, rep=rep, residues=sorted({re.sub(r'buf=0x[0-9a-f]+ ', '', l) for l in out.split('\n') if l.startswith('Warning: malloc')}))
        shutil.rmtree(d, ignore_errors=True)
        ctx.count('limit-' + tag, nontrivial=True)
    # ------------- C. resources: named scenarios + the lifecycle histories on the debug build + the communicator lifecycle
    scen = scenarios()
    res_cases = [(s['name'], s) for s in scen]
    nres = 0
    def run_scen(item):
        name, s = item
        script = '\n'.join(['nprocs %d' % s['np'], 'env PNETCDF_SAFE_MODE=0'] + s['lines']) + '\n'
        d = os.path.join(wd, 'sc-' + name)
        os.makedirs(d, exist_ok=True)
        if s.get('pre') == 'corrupt4':
            open(os.path.join(d, 'f4.nc'), 'wb').write(CORRUPT)
        rc, out, logs, reps = run_impl(impl_dbg, script, wd, 'sc-' + name, env=s.get('env'), np_=s['np'], timeout=180)
        return name, script, rc, out, logs, reps
    with cf.ThreadPoolExecutor(max_workers=6) as ex:
        for name, script, rc, out, logs, reps in ex.map(run_scen, res_cases):
            nres += 1
            ctx.count('scenario ' + name + '\n' + script, nontrivial=True)
            if rc != 0:
                crashes.append(dict(history='scenario:' + name, event=(logs[0][1] or ''), what=(logs[0][1] or 'scenario ' + name), rc=rc, script=script,
                                    predicted=False, detail=out[-500:]))
                continue
            for r, rp in enumerate(reps):
                if not rp:
                    continue
                for kind, detail in leaks_of(parse_report(rp[-1]), debug=True):
                    residues = sorted({re.sub(r'buf=0x[0-9a-f]+ ', '', l) for l in out.split('\n') if l.startswith('Warning: malloc')})
                    leak_hits.setdefault((name, kind), []).append(dict(history=name, detail=detail, script=script, rank=r, residues=residues[:12]))
    # lifecycle histories without predicted crash, on the debug build
    nlife = 0
    def run_life(k):
        name, evs, _ = hists[k]
        script, where = script_of(evs)
        rc, out, logs, reps = run_impl(impl_dbg, script, wd, 'd%d' % k, timeout=120)
        return k, script, rc, out, reps
    sel = [k for k in range(len(hists)) if not any(r == (-7777, -7777) for r in models[k][0])]
    if not thorough:
        sel = sel[:60]
    with cf.ThreadPoolExecutor(max_workers=8) as ex:
        for k, script, rc, out, reps in ex.map(run_life, sel):
            nlife += 1
            if rc != 0 or not reps[0]:
                continue
            for kind, detail in leaks_of(parse_report(reps[0][-1]), debug=True):
                residues = sorted({re.sub(r'buf=0x[0-9a-f]+ ', '', l) for l in out.split('\n') if l.startswith('Warning: malloc')})
                # attribute the leak of a history to the feature it contains (pending requests at abort / close)
                feats = sorted(hists[k][2])
                feat = 'history:' + '+'.join(feats) if feats else 'history'
                leak_hits.setdefault((feat, kind), []).append(dict(history=hists[k][0], detail=detail, script=script, residues=residues[:12]))
    # a sample of the mode-machine scripts of C14 (every API family, every mode, rejected and accepted calls) on the debug build
    nmodes = 0
    try:
        from checks import C14
        mexe = C14.modes_exe()
        starts = [(s_, r_) for s_ in ('created', 'rw', 'ro') for r_ in (1, 0)]
        descs = list(C14.enum_descs(3, starts, 0, 'enum'))
        stride = max(1, len(descs) // (400 if thorough else 40))
        pick = [descs[i] for i in range(ctx.seed % stride, len(descs), stride)]
        def run_modes(desc):
            script, _ = C14.history_script(desc, mexe)
            rc, out, logs, reps = run_impl(impl_dbg, script, wd, 'm-' + hashlib.sha1(script.encode()).hexdigest()[:10], timeout=180)
            return desc, script, rc, out, reps
        with cf.ThreadPoolExecutor(max_workers=8) as ex:
            for desc, script, rc, out, reps in ex.map(run_modes, pick):
                nmodes += 1
                ctx.count('modes-sample ' + C14.desc_tag(desc), nontrivial=True)
                if rc != 0 or not reps[0]:
                    continue       # crashes of these scripts are C14's business
                for kind, detail in leaks_of(parse_report(reps[0][-1]), debug=True):
                    residues = sorted({re.sub(r'buf=0x[0-9a-f]+ ', '', l) for l in out.split('\n') if l.startswith('Warning: malloc')})
                    leak_hits.setdefault(('modes-script', kind), []).append(dict(history=C14.desc_tag(desc), detail=detail, script=script, residues=residues[:12]))
    except C.BuildFailure as e:
        ctx.cov['modes_sample_skipped'] = str(e)[-300:]
    stats['mode_machine_scripts_on_debug_build'] = nmodes
    # communicator lifecycle (c17_limit comm), 1 and 2 ranks, debug build
    comm_obs = {}
    for np_ in (1, 2):
        d = os.path.join(wd, 'comm%d' % np_)
        os.makedirs(d, exist_ok=True)
        rc, out = C.mpirun(np_, limit_dbg, [d, 'comm'], env={'C17_REPORT': os.path.join(d, 'rep'), 'PNETCDF_SAFE_MODE': '0'}, timeout=300)
        reps = []
        for r in range(np_):
            p = os.path.join(d, 'rep.%d' % r)
            reps.append([l.strip() for l in open(p)] if os.path.exists(p) else [])
        comm_obs[np_] = dict(rc=rc, out=out[-1500:], reps=reps)
        ctx.count('comm-lifecycle np=%d' % np_, nontrivial=True)
        shutil.rmtree(d, ignore_errors=True)

    stats['resource_scenarios'] = nres
    stats['lifecycle_histories_on_debug_build'] = nlife
    ctx.cov['rule'] = ('id table: %d hand-written + %d generated histories of 12-42 events (create ok / NOCLOBBER-existing, open ok / missing / not netCDF / '
                       '5-byte file, close, abort, API calls of %d families, iput) with valid, stale, never-used, boundary, negative and huge ids; one in four '
                       'generated histories may contain a use of an empty in-range slot while a file is open (predicted NULL dereference, own process); '
                       'non-trivial = some call is refused. Resources (OBSERVED): %d named scenarios + the crash-free histories on the --enable-debug build '
                       'with the PMPI shim, the 1024-file harness on both builds, the communicator lifecycle on 1 and 2 ranks'
                       % (len(fixed_histories()), nrand, len(API_ANY), len(scen)))
    ctx.cov['distribution'] = stats
    ctx.cov['proof_vs_observation'] = dict(
        proved='ncid table: Properties_C17.v (check_id soundness fixed/refuted/partial/current, ids_valid_exactly_between, id_reuse_first_free, max_files, '
               'files_independent, table_invariant, pnc_objects_*), tied by return-code/ncid correspondence on the histories above',
        observed='heap = 0 (ncmpi_inq_malloc_size, --enable-debug build) and MPI datatype/communicator/info/file-handle balances (PMPI shim) at MPI_Finalize '
                 'for the scenarios and histories that were run; no model, no proof')
    ctx.cov['limit_harness'] = {k: dict(rc=v['rc'], creates=v['obs'].get('creates'), extra_create=v['obs'].get('extra_create'),
                                        extra_open=v['obs'].get('extra_open'), reuse=[v['obs'].get('reuse0'), v['obs'].get('reuse1'), v['obs'].get('reuse2')],
                                        final=v['rep'][-1:] ) for k, v in lim.items()}

    # ------------- verdicts
    oracle_failed = False
    # 1a. crash of the implementation = violation of "returns the bad-id error instead of crashing"
    pc = [c for c in crashes if c['predicted']]
    if pc:
        oracle_failed = True
        c = min(pc, key=lambda x: len(x['script']))
        fams = sorted({x['what'].split()[0] for x in pc})
        ctx.violation('a call with an id that is not open (slot empty, another file open) kills the process instead of returning NC_EBADID: '
                      '%s (rc %s); %d such histories, API families: %s' % (c['what'], c['rc'], len(pc), fams),
                      dict(script=c['script'], event=c['event'], relation='oracle_no_crash', detail=c['detail']), key='check_id:null-slot')
    for c in [c for c in crashes if not c['predicted']]:
        oracle_failed = True
        ctx.violation('the implementation died or hung where the model predicts a return code: %s (rc %s)' % (c['what'], c['rc']),
                      dict(script=c['script'], event=c['event'], relation='oracle_no_crash', detail=c['detail']),
                      key='crash:%s' % (c['what'].split()[0] if c['what'] else 'unknown'))
    # 1b. the limit
    for tag, v in lim.items():
        o = v['obs']
        want_ok = (v['rc'] == 0 and o.get('creates') == [[str(MAXF), 'bad_rc', '0', 'bad_id', '0']] and
                   all(x == [str(i), 'rc', str(ENFILE), 'ncid', '-1'] for i, x in enumerate(o.get('extra_create', []))) and len(o.get('extra_create', [])) == 3 and
                   all(x == [str(i), 'rc', str(ENFILE), 'ncid', '-1'] for i, x in enumerate(o.get('extra_open', []))) and len(o.get('extra_open', [])) == 3 and
                   o.get('reuse0') == [['rc', '0', 'ncid', '5']] and o.get('reuse1') == [['rc', '0', 'ncid', '7']] and
                   o.get('reuse2') == [['rc', str(ENFILE), 'ncid', '-1']] and o.get('closes') == [[str(MAXF), 'bad_rc', '0']] and
                   o.get('files_opened', [])[-1:] == [['0']] and o.get('close_after_all') == [['rc', str(EBADID)]])
        if not want_ok:
            oracle_failed = True
            ctx.violation('the %d-file limit does not behave as documented on the %s build' % (MAXF, tag),
                          dict(observations={k: x[:6] for k, x in o.items()}, rc=v['rc'], relation='oracle_max_files'), key='max_files:%s' % tag)
        if v['rep']:
            for kind, detail in leaks_of(parse_report(v['rep'][-1]), debug=(tag == 'debug')):
                leak_hits.setdefault(('enfile-refused-create-open', kind), []).append(dict(history='c17_limit ' + tag, detail=detail, residues=v['residues'][:8],
                                                                                           reports=v['rep']))
    for np_, v in comm_obs.items():
        if v['rc'] != 0:
            oracle_failed = True
            ctx.violation('communicator lifecycle harness failed (np=%d)' % np_, dict(out=v['out'], relation='oracle_no_crash'), key='crash:comm-lifecycle')
        for r, rp in enumerate(v['reps']):
            prev = None
            for line in rp:
                tagl = line.split()[0]
                for kind, detail in leaks_of(parse_report(line), debug=True):
                    if tagl == 'C17' or kind == 'heap':
                        where_ = tagl.replace('C17@', '') if tagl != 'C17' else 'final'
                        leak_hits.setdefault(('comm-lifecycle:' + where_, kind), []).append(dict(history='c17_limit comm np=%d rank %d' % (np_, r), detail=detail,
                                                                                               out=v['out'][-600:]))
    # 1c. leaks (OBSERVED part)
    # heap residues are grouped by the functions that allocated them (the cause), MPI objects by scenario
    groups = {}
    for (name, kind), hits in sorted(leak_hits.items()):
        for h in hits:
            funcs = sorted({m.group(1) for l in h.get('residues', []) for m in [re.search(r'func=(\w+)', l)] if m})
            if kind == 'heap' and funcs:
                key = 'leak:heap:' + '+'.join(funcs)
            elif kind == 'heap' and name.startswith('comm-lifecycle'):
                key = 'leak:heap:comm-lifecycle'
            else:
                key = 'leak:%s:%s' % (kind, name)
            groups.setdefault(key, []).append((name, kind, h))
    # the communicator harness repeats abort-with-pending / attached-buffer: explained when a scenario group shows the same amount
    for key, items in sorted(groups.items()):
        if key == 'leak:heap:comm-lifecycle' and any(k.startswith('leak:heap:ncmpio_igetput_varm') for k in groups):
            continue
        oracle_failed = True
        names = sorted({n for n, _, _ in items})
        name, kind, h = min(items, key=lambda x: len(x[2].get('script', '')) or 10 ** 9)
        ctx.violation('OBSERVED resource imbalance (%s): %s%s; seen in %d runs, scenarios: %s'
                      % (kind, h['detail'], ('; allocated at: ' + '; '.join(re.sub(r'Warning: malloc yet to be freed ', '', x) for x in h.get('residues', [])[:5]))
                         if h.get('residues') else '', len(items), ', '.join(names[:12])),
                      dict(script=h.get('script', ''), scenario=name, kind=kind, detail=h['detail'], residues=h.get('residues', []), relation='observed_resources',
                           scenarios=names, build='debug' if kind == 'heap' else 'default/debug'), key=key)
    # 2. model vs implementation
    if nocrash:
        m = nocrash[0]
        ctx.violation('corr_C17_crash: the model (check as read from file.c) predicts a NULL dereference but the implementation returned %s for %s'
                      % (m['impl'], m['what']), dict(script=m['script'], event=m['event'], relation='corr_C17_crash'), no_input=not oracle_failed)
    if mism:
        m = mism[0]
        ctx.violation('corr_C17_rc: model and implementation disagree on a return code or ncid (%d cases), first: %s impl %s model %s'
                      % (len(mism), m.get('what'), m.get('impl'), m.get('model')), dict(script=m['script'], event=m['event'], relation='corr_C17_rc',
                                                                                        others=[dict(x, script='') for x in mism[1:8]]), no_input=not oracle_failed)
    if not proof_ok:
        ctx.violation('proof obligations of Properties_C17.v do not check: %s' % pr['failed'],
                      dict(relation='proof', failed=pr['failed'], log=pr['log'][-2000:]), no_input=not oracle_failed)


def replay(ctx, d):
    lib = C.libdir('debug') if d.get('relation') == 'observed_resources' and d.get('kind') == 'heap' else C.libdir()
    exe = C.build_c(lib, [S.IMPL_SRC, os.path.join(C.VERIF, 'harness', 'c17_shim.c')], 'c17_impl')
    wd = C.scratch('c17r.')
    if not d.get('script'):
        print('no script in this replay file (harness observation): %s' % d.get('what'))
        return 1
    dd = os.path.join(wd, 'replay')
    os.makedirs(dd, exist_ok=True)
    open(os.path.join(dd, 'f4.nc'), 'wb').write(CORRUPT)
    np_ = S.nprocs_of(d['script'])
    rc, out, logs, reps = run_impl(exe, d['script'], wd, 'replay', np_=np_, timeout=180)
    for ln, t in sorted(logs[0][0].items()):
        print('%4d %s' % (ln, ' '.join(t)[:120]))
    if logs[0][1]:
        print('last line started: ' + logs[0][1])
    print('exit code %s' % rc)
    bad = rc != 0
    for rp in reps:
        for l in rp:
            print(l)
            bad = bad or bool(leaks_of(parse_report(l), debug=(d.get('kind') == 'heap')))
    print(out[-1200:])
    return 1 if bad else 0
