"""C17 File handles and library resources have a clean lifecycle.

PROVED (coq/Properties_C17.v, model coq/Files.v of pnc_filelist / pnc_numfiles / new_id_PNCList /
del_from_PNCList / PNC_check_id and of the exits of ncmpi_create / ncmpi_open / ncmpi_close / ncmpi_abort,
for EVERY history with arbitrary ids): table invariant, ids valid exactly between the create/open that
returned them and the close/abort that released them, the allocator finds an unused id whenever the table is
not full (new_id_finds_free_slot; refuted for the variant that scans from pnc_numfiles), NC_MAX_NFILES files
then NC_ENFILE, independence of slots; check_id soundness and crash freedom for the check WITH a NULL-slot
test, their refutation for the check without it, and the verdict for the sources as built (switches read
from file.c by tools/tr_modes.py); accounting of the PNC object of a refused create/open; close reports and
cancels pending requests (from the C14 model).  That the code reissues the FIRST free id (id_reuse_first_free)
is a fact about the model, not a demand of the property: no oracle below asks for it.

TIE (id table), in this order so that a broken proof or model never hides a failing input:
 1. IMPLEMENTATION-ONLY ORACLE.  Histories of create/open (succeeding, NC_EEXIST, missing file, not a netCDF
    file, 5-byte file, corrupt header), close, abort, API calls of many families and nonblocking posts, addressed
    through the ids the library actually returned (script slots), through stale ids and through literal negative /
    huge / never-used ids, are run through harness/pnc_impl with harness/c17_shim.c, which after EVERY event records
    ncmpi_inq_files_opened (count and list).  Judged from the log alone: a returned id is >= 0, < NC_MAX_NFILES and
    not currently open; it is usable at once; an id is refused with NC_EBADID exactly when it is not open; close
    answers NC_EPENDING exactly when requests are pending; a failing create/open opens nothing; the library's list
    of open files equals the set of ids handed out and not yet released; the process survives.
    harness/c17_limit does the same with NC_MAX_NFILES files: fill the table, refused creates/opens (NC_ENFILE,
    ncid -1), close LOW ids out of order, open that many again (unused valid ids), full again, close all, count 0.
 2. MODEL CORRESPONDENCE.  The same histories with the ids that were observed are written as Coq terms and
    Files.run_codes is evaluated by vm_compute; every return code and every returned ncid is compared.

OBSERVED, NOT PROVED (resources): the same histories, a list of named scenarios (every early exit we know of)
and a sample of mode-machine scripts are run on a library configured with --enable-debug (heap:
ncmpi_inq_malloc_size must be 0 at MPI_Finalize) with harness/c17_shim.c interposed on PMPI (datatype,
communicator, info, file-handle constructors vs. frees must balance)."""
import os, re, sys, time, json, shutil, hashlib
import concurrent.futures as cf
from pnc import common as C, scripts as S

LEVEL = 'proof'
ASSUMPTIONS = [
    'PROOF covers the ncid table only; heap and MPI-object balances are observations on the histories that were run (exploration level)',
    'create/open outcomes (success, early failure, driver failure) are inputs of the model; the file system decides them in the runs',
    'one process; the table is per process (no thread safety: ENABLE_THREAD_SAFE is off in this build)',
    'MPI objects held by the MPI library itself and datatypes returned by MPI_Type_get_contents are not counted',
    'modelled, not verified: OpenMPI/ROMIO, POSIX file system, C compiler',
]
CHECKER_CMD = ('tools/tr_consts.py + tools/tr_modes.py && coq_makefile -f _CoqProject -o Makefile && make -k -j16 Properties_C17.vo && '
               'coqc -Q . Pnc Properties_C17.v (Print Assumptions); model runs: coqc of generated cases files (Eval vm_compute)')

NOERR, EBADID, ENFILE, EEXIST, ENOENT, ENOTNC, EPENDING, EFILE, EPERM = 0, -33, -34, -35, -220, -51, -236, -204, -37
MAXF = 1024


def hx(s):
    return s.encode().hex()


# ------------------------------------------------------------------ histories (id-agnostic: ids live in script slots)
# file slots: 0..3 real files, 4 = file with netCDF magic and a corrupt header (made by the check), 5 = never created,
# 6 = junk (not netCDF), 7 = scratch slot for literal ids (setid)
INQ = ['inq_nreqs %d', 'inq %d', 'inq_numrecs %d']
# for an id believed stale: anything that neither posts/completes requests nor releases the file
API_STALE = ['inq_nreqs %d', 'inq %d', 'sync %d', 'redef %d', 'enddef %d', 'put %d c 0 var1 t4 c 1 0 pat 1', 'get %d i 0 var1 t4 c 1 0',
             'def_dim %%d %s 3' % hx('q'), 'put_att %%d -1 %s 4 1 5' % hx('a'), 'begin_indep %d', 'end_indep %d', 'fill_var_rec %d 0 0',
             'inq_var_fill %d 0', 'flush %d', 'set_fill %d 0', 'rename_var %%d 0 %s' % hx('w'), 'del_att %%d -1 %s' % hx('a'),
             'get_att %%d -1 %s' % hx('a'), 'sync_numrecs %d', 'inq_buffer %d', 'def_var %%d %s 4 0' % hx('s'),
             'rename_dim %%d 0 %s' % hx('y'), '_enddef %d 0 0 0 0', 'inq_attid %%d -1 %s' % hx('a'), 'def_var_fill %d 0 0 0 0']
# for a literal id that cannot be open: every family
API_ANY = API_STALE + ['wait %d c -1', 'wait %d i 0', 'attach %d 100', 'detach %d', 'cancel %d -1', 'iput %d 9 0 var1 t4 c 1 0 pat 1',
                       'iget %d 10 0 var1 t4 c 1 0', 'bput %d 11 0 var1 t4 c 1 0 pat 2', 'copy_att %%d -1 %s %%d -1' % hx('a')]
LITERALS = [-1, -2, -5, -2 ** 31, MAXF, MAXF + 1, 4096, 2 ** 31 - 1, MAXF - 1, MAXF - 2, 500]


def fmt(t, k):
    return t % tuple([k] * t.count('%d'))


class Ev:
    """one event = some script lines; the line `cmp` carries the return code that is judged.
    kind: create | open | api | post | close | abort ; slot: script slot used ; lit: literal id put into slot 7 first
    expect: for create/open 'ok' | 'early' | 'driver' ; coqfail: Coq outcome for an expected failure"""
    def __init__(self, kind, lines, cmp, slot, what, lit=None, expect=None, coqfail=None, inquiry=False):
        self.kind = kind; self.lines = lines; self.cmp = cmp; self.slot = slot; self.what = what
        self.lit = lit; self.expect = expect; self.coqfail = coqfail; self.inquiry = inquiry


def ev_dump(evs):
    return [dict(kind=e.kind, lines=e.lines, cmp=e.cmp, slot=e.slot, what=e.what, lit=e.lit, expect=e.expect, coqfail=e.coqfail, inquiry=e.inquiry) for e in evs]


def ev_load(l):
    return [Ev(x['kind'], x['lines'], x['cmp'], x['slot'], x['what'], lit=x['lit'], expect=x['expect'], coqfail=x['coqfail'], inquiry=x['inquiry']) for x in l]


class Gen:
    """chooses inputs only; it believes nothing about WHICH ids the library hands out"""
    NF = 4
    def __init__(self, rng):
        self.rng = rng
        self.open = {}                 # file slot -> 'rw' | 'ro' (believed open)
        self.exists = [False] * self.NF
        self.used = [False] * self.NF  # slot holds an id that was returned once
        self.created = {}              # slot -> True if the current handle came from create
        self.evs = []
        self.rs = 0
        self.n = 0
    def add(self, *a, **k):
        self.evs.append(Ev(*a, **k))
    def ev_create(self):
        r = self.rng
        free = [k for k in range(self.NF) if k not in self.open]
        if not free:
            return
        k = r.choice(free)
        if self.exists[k] and r.chance(1, 3):
            self.add('create', ['* create %d 1 0' % k, '* def_dim %d %s 4' % (k, hx('x')), '* def_var %d %s 4 1 0' % (k, hx('v'))], 0, k,
                     'create NOCLOBBER on an existing file', expect='driver', coqfail='ODriver NC_EEXIST')
            return
        clobber = 1 if self.exists[k] else r.choice([0, 1])
        self.open[k] = 'rw'; self.exists[k] = True; self.used[k] = True; self.created[k] = True
        self.add('create', ['* create %d %d %d' % (k, r.choice([1, 2, 5]), clobber), '* def_dim %d %s 4' % (k, hx('x')),
                            '* def_var %d %s 4 1 0' % (k, hx('v'))], 0, k, 'create', expect='ok')
    def ev_open(self):
        r = self.rng
        c = r.below(12)
        if c == 0:
            self.add('open', ['* open 5 %d' % r.choice([0, 1])], 0, 5, 'open of a missing file', expect='early', coqfail='OEarly NC_ENOENT')
        elif c == 1:
            self.add('open', ['* junk 6 64 %d' % r.below(200), '* open 6 0'], 1, 6, 'open of a file that is not netCDF', expect='early', coqfail='OEarly NC_ENOTNC')
        elif c == 2:
            self.add('open', ['* junk 6 5 1', '* open 6 1'], 1, 6, 'open of a 5-byte file', expect='early', coqfail='OEarly NC_EFILE')
        elif c == 3:
            self.add('open', ['* open 4 %d' % r.choice([0, 1])], 0, 4, 'open of a file with a corrupt header', expect='driver', coqfail='ODriver')
        else:
            cand = [k for k in range(self.NF) if self.exists[k] and k not in self.open]
            if not cand:
                return
            k = r.choice(cand)
            rw = r.choice([0, 1])
            self.open[k] = 'rw' if rw else 'ro'; self.used[k] = True; self.created[k] = False
            self.add('open', ['* open %d %d' % (k, rw), '* inq %d' % k], 0, k, 'open', expect='ok')
    def ev_idop(self):
        r = self.rng
        self.n += 1
        c = r.below(10)
        if c < 5 and self.open:                       # an id believed valid
            k = r.choice(sorted(self.open))
            kind = r.choice(['api', 'api', 'post', 'close', 'close', 'abort'])
            if kind == 'api':
                l = fmt(INQ[self.n % len(INQ)], k)
                self.add('api', ['* ' + l], 0, k, l.split()[0], inquiry=True)
            elif kind == 'post':
                self.rs = (self.rs + 1) % 60
                op = 'iput %d %d 0 var1 t4 c 1 0 pat 3' if (self.open[k] == 'rw' and r.chance(1, 2)) else 'iget %d %d 0 var1 t4 c 1 0'
                self.add('post', ['* ' + op % (k, self.rs)], 0, k, op.split()[0])
            else:
                self.add(kind, ['* %s %d' % (kind, k)], 0, k, kind)
                del self.open[k]
                if kind == 'abort' and self.created.get(k):
                    self.exists[k] = False
        elif c < 8:                                   # a stale id (slot closed) or a slot that never held an id
            cand = [k for k in range(self.NF) if k not in self.open] + [5, 6]
            k = r.choice(cand)
            # (no abort here: should the library have reissued this id, abort could delete another slot's new file
            #  and the generator's idea of which files exist would be wrong; the oracle itself is id-based)
            kind = r.choice(['api', 'api', 'api', 'close'])
            if kind == 'api':
                l = fmt(API_STALE[(self.n * 7 + r.below(3)) % len(API_STALE)], k)
                self.add('api', ['* ' + l], 0, k, l.split()[0] + ' through a released or unused slot')
            else:
                self.add(kind, ['* %s %d' % (kind, k)], 0, k, kind + ' through a released or unused slot')
        else:                                         # a literal id
            i = r.choice(LITERALS)
            kind = r.choice(['api', 'api', 'api', 'close', 'abort'])
            if kind == 'api':
                l = fmt(API_ANY[(self.n * 5 + r.below(3)) % len(API_ANY)], 7)
                self.add('api', ['* setid 7 %d' % i, '* ' + l], 1, 7, '%s on literal id %d' % (l.split()[0], i), lit=i)
            else:
                self.add(kind, ['* setid 7 %d' % i, '* %s 7' % kind], 1, 7, '%s of literal id %d' % (kind, i), lit=i)
    def finish(self):
        for k in sorted(self.open):
            self.add('close', ['* close %d' % k], 0, k, 'final close')
        self.open = {}
        for k in range(self.NF):
            if self.used[k]:
                self.add('api', ['* inq_nreqs %d' % k], 0, k, 'inq_nreqs after everything was closed')
        for i in (0, 1, -1, MAXF):
            self.add('api', ['* setid 7 %d' % i, '* inq_nreqs 7'], 1, 7, 'inq_nreqs on literal id %d, nothing open' % i, lit=i)


def gen_history(rng, n):
    g = Gen(rng)
    tries = 0
    while len(g.evs) < n and tries < 10 * n:
        tries += 1
        c = rng.below(10)
        if c < 2: g.ev_create()
        elif c < 4: g.ev_open()
        else: g.ev_idop()
    g.finish()
    return g.evs


def fixed_histories():
    H = []
    cr = lambda k: Ev('create', ['* create %d 1 1' % k, '* def_dim %d %s 4' % (k, hx('x')), '* def_var %d %s 4 1 0' % (k, hx('v'))], 0, k, 'create', expect='ok')
    op_ = lambda k, w=0: Ev('open', ['* open %d %d' % (k, w), '* inq %d' % k], 0, k, 'open', expect='ok')
    def op(kind, k, line=None):
        l = line or {'api': 'inq_nreqs %d', 'close': 'close %d', 'abort': 'abort %d', 'post': 'iget %d 1 0 var1 t4 c 1 0'}[kind]
        l = fmt(l, k)
        return Ev(kind, ['* ' + l], 0, k, l.split()[0], inquiry=(kind == 'api' and line is None))
    def lit(kind, i, line=None):
        l = fmt(line or {'api': 'inq_nreqs %d', 'close': 'close %d', 'abort': 'abort %d'}[kind], 7)
        return Ev(kind, ['* setid 7 %d' % i, '* ' + l], 1, 7, '%s on literal id %d' % (l.split()[0], i), lit=i)
    H.append(('stale-close-while-other-open', [cr(0), cr(1), op('close', 0), op('close', 0), op('close', 1)]))
    H.append(('stale-api-while-other-open', [cr(0), cr(1), op('close', 0), op('api', 0, 'sync %d'), op('close', 1)]))
    H.append(('never-used-id-while-other-open', [cr(0), lit('api', 7), lit('api', 1), lit('api', MAXF - 1, 'sync %d'), op('abort', 0)]))
    H.append(('stale-put-while-other-open', [cr(0), cr(1), op('abort', 1), op('api', 1, 'put %d c 0 var1 t4 c 1 0 pat 1'), op('close', 0)]))
    H.append(('stale-after-all-closed', [cr(0), cr(1), op('close', 0), op('close', 1), op('api', 0), op('close', 1), op('abort', 0)]))
    H.append(('boundary-ids-while-open', [cr(0), lit('api', -1), lit('api', MAXF), lit('api', 2 ** 31 - 1), lit('api', -2 ** 31), lit('close', MAXF),
                                          lit('abort', -7), op('close', 0)]))
    H.append(('release-and-reissue', [cr(0), cr(1), cr(2), op('close', 1), cr(3), op('close', 0), op('close', 2), cr(1), op('api', 0), op('api', 1),
                                      op('api', 3), op('close', 3), op('close', 1), cr(0), op_(1), op_(2, 1), op('close', 1), op('close', 0), op('close', 2)]))
    H.append(('close-pending', [cr(0), op('post', 0), op('post', 0, 'iput %d 2 0 var1 t4 c 1 0 pat 1'), op('close', 0), op('api', 0)]))
    H.append(('abort-pending', [cr(0), op('post', 0), op('abort', 0), op('api', 0)]))
    H.append(('failed-opens-between', [cr(0), Ev('open', ['* open 4 0'], 0, 4, 'open of a file with a corrupt header', expect='driver', coqfail='ODriver'),
                                       Ev('open', ['* open 5 0'], 0, 5, 'open of a missing file', expect='early', coqfail='OEarly NC_ENOENT'),
                                       cr(1), Ev('open', ['* open 4 1'], 0, 4, 'open of a file with a corrupt header', expect='driver', coqfail='ODriver'),
                                       op('close', 0), Ev('create', ['* create 0 1 0'], 0, 0, 'create NOCLOBBER on an existing file', expect='driver', coqfail='ODriver NC_EEXIST'),
                                       cr(2), op('close', 1), op('close', 2)]))
    return H


# ------------------------------------------------------------------ running
CORRUPT = b'CDF\x01' + b'\xff' * 16


def script_of(evs, np_=1):
    """every event is followed by `barrier` = table probe of the shim.  -> (text, [(first line number of the event,
    index of its probe among all MPI_Barrier calls of the run)])   (`junk` also makes a barrier)"""
    L = ['nprocs %d' % np_, 'env PNETCDF_SAFE_MODE=0']
    where = []
    nb = 0
    for e in evs:
        base = len(L)
        L.extend(e.lines)
        nb += sum(1 for l in e.lines if l.split()[1] == 'junk')
        where.append((base + 1, nb))
        nb += 1
        L.append('* barrier')
    return '\n'.join(L) + '\n', where


def run_impl(exe, script, wd, tag, env=None, np_=1, timeout=120):
    d = os.path.join(wd, tag)
    os.makedirs(d, exist_ok=True)
    if not os.path.exists(os.path.join(d, 'f4.nc')):
        open(os.path.join(d, 'f4.nc'), 'wb').write(CORRUPT)
    sp = os.path.join(d, 'script.txt')
    open(sp, 'w').write(script)
    e = dict(os.environ) if np_ == 1 else {}
    e.update(PNC_DIR=d, PNC_OUT=os.path.join(d, 'out'))
    e['C17_REPORT'] = os.path.join(d, 'rep')
    if np_ == 1:
        e['C17_TABLE_PROBE'] = '1'
    if env:
        e.update(env)
    if np_ == 1:
        rc, out = C.sh([exe, sp], timeout=timeout, env=e, cwd=d)
    else:
        rc, out = C.mpirun(np_, exe, [sp], env=e, timeout=timeout, cwd=d)
    logs = []
    for r in range(np_):
        lg = {}
        lastline = None
        try:
            for line in open(os.path.join(d, 'out.%d' % r), errors='replace'):
                p = line.rstrip('\n').split(' ')
                if len(p) >= 4:
                    try:
                        lg[int(p[0])] = p[2:]
                    except ValueError:
                        pass
                elif len(p) == 3:
                    lastline = line.strip()
        except OSError:
            pass
        logs.append((lg, lastline))
    reps, probes = [], []
    for r in range(np_):
        try:
            ls = [l.strip() for l in open(os.path.join(d, 'rep.%d' % r))]
        except OSError:
            ls = []
        reps.append([l for l in ls if l.startswith('C17 ')])
        pr = []
        for l in ls:
            if l.startswith('C17#'):
                m = re.match(r'C17#(\d+) files=(-?\d+) listed=(-?\d+) ids=(.*)$', l)
                if m:
                    pr.append((int(m.group(2)), int(m.group(3)), [int(x) for x in m.group(4).split(',') if x]))
        probes.append(pr)
    shutil.rmtree(d, ignore_errors=True)
    return rc, out, logs, reps, probes


def parse_report(line):
    d = {}
    for t in line.split()[1:]:
        k, v = t.split('=')
        if '/' in v:
            a, b = v.split('/')
            d[k] = (int(a), int(b))
        else:
            d[k] = int(v)
    return d


def leaks_of(rep, debug):
    """-> list of (kind, detail)"""
    out = []
    if debug and rep.get('heap', 0) != 0:
        out.append(('heap', '%d bytes still allocated at MPI_Finalize' % rep['heap']))
    if rep.get('files', 0) != 0:
        out.append(('table', '%d ncids still open' % rep['files']))
    for k, nm in (('types', 'mpi-type'), ('comms', 'mpi-comm'), ('infos', 'mpi-info'), ('fh', 'mpi-file')):
        a, b = rep.get(k, (0, 0))
        if a != b:
            out.append((nm, '%d created, %d freed' % (a, b)))
    return out


# ------------------------------------------------------------------ the implementation-only oracle
POSTS = ('iput', 'iget', 'bput')


def judge(evs, where, rc, out, lg, lastline, probes):
    """-> (failures, coq events, observed results, features).  failures: list of dict(key, what, event index).
    Reconstructs from the log which ids are open (ids RETURNED and not yet RELEASED) — nothing is assumed about
    which id the library chooses."""
    fails = []
    slots = {k: -1 for k in range(8)}
    open_ids = {}            # id -> pending request count
    coq, obs, feats = [], [], set()
    fexists = {k: False for k in range(4)}
    idinfo = {}
    def fail(key, what, j):
        fails.append(dict(key=key, what=what, event=j))
    for j, (e, (ln0, pj)) in enumerate(zip(evs, where)):
        ln = ln0 + e.cmp
        t = lg.get(ln)
        if e.lit is not None:
            slots[7] = e.lit
        if t is None:
            if rc not in (0,):
                fail('crash:' + (lastline.split()[2] if lastline and len(lastline.split()) > 2 else e.what.split()[0]), 'the process %s in: %s (exit code %s)%s' % ('hung' if rc == -9 else 'died', e.what, rc,
                     (' [' + lastline + ']') if lastline else ''), j)
            else:
                fail('harness:no-log-line', 'no log line for: ' + e.what, j)
            break
        try:
            irc = int(t[1])
        except ValueError:
            fail('harness:bad-log-line', ' '.join(t), j)
            break
        if e.kind in ('create', 'open'):
            ncid = int(t[2]) if len(t) > 2 else -99
            obs.append((irc, ncid))
            # what must happen follows from the state of the FILE as the log shows it (which files exist is tracked here, from
            # the ids that were really released — the generator's idea may be off when the library reissues ids)
            fs = e.slot
            toks = e.lines[e.cmp].split()
            if fs < 4 and e.kind == 'create':
                want_ok = (toks[4] != '0') or not fexists[fs]
                cq = 'ECreate OOk' if want_ok else 'ECreate (ODriver NC_EEXIST)'
                why = 'create' if want_ok else 'create NOCLOBBER on an existing file'
            elif fs < 4:
                want_ok = fexists[fs]
                cq = 'EOpen OOk' if want_ok else 'EOpen (OEarly NC_ENOENT)'
                why = 'open' if want_ok else 'open of a missing file'
            else:
                want_ok = False
                cq = ('ECreate (%s)' if e.kind == 'create' else 'EOpen (%s)') % (e.coqfail if e.coqfail != 'ODriver' else 'ODriver (%d)' % irc)
                why = e.what
            coq.append(cq)
            if want_ok and irc != 0:
                fail('create-open:refused', '%s failed with %d although fewer than NC_MAX_NFILES (%d) files are open' % (why, irc, len(open_ids)), j)
                coq[-1] = None
            if not want_ok and irc == 0:
                fail('create-open:unexpected-success', '%s returned NC_NOERR' % why, j)
                coq[-1] = None
            if irc == 0 and fs < 4:
                fexists[fs] = True
                if 0 <= ncid < MAXF:
                    idinfo[ncid] = dict(fs=fs, new=(e.kind == 'create'))
            if irc == 0:
                if not (0 <= ncid < MAXF):
                    fail('create-open:invalid-id', '%s returned NC_NOERR with ncid %d (the handle is lost: it can be neither used nor closed)' % (e.what, ncid), j)
                elif ncid in open_ids:
                    fail('create-open:duplicate-id', '%s returned ncid %d, which is the id of a file that is still open' % (e.what, ncid), j)
                else:
                    open_ids[ncid] = 0
                    for extra in range(1, len(e.lines) - e.cmp):
                        t2 = lg.get(ln + extra)
                        if t2 is not None and t2[1] != '0':
                            fail('new-id:not-usable', '%s on the id %d just returned by %s gives %s' % (t2[0], ncid, e.what, t2[1]), j)
            elif ncid >= 0:
                fail('create-open:id-on-failure', '%s failed (%d) but set ncid to %d' % (e.what, irc, ncid), j)
            if ncid >= 0:
                slots[e.slot] = ncid
        else:
            i = slots[e.slot]
            valid = i in open_ids
            obs.append((irc, -99))
            opname = t[0]
            if e.kind in ('close', 'abort'):
                coq.append('%s (%d)' % ('EClose' if e.kind == 'close' else 'EAbort', i))
                if not valid:
                    if irc != EBADID:
                        fail('bad-id:accepted', '%s of id %d, which is not open, returned %d instead of NC_EBADID' % (e.kind, i, irc), j)
                else:
                    want = EPENDING if (e.kind == 'close' and open_ids[i] > 0) else NOERR
                    if open_ids[i] > 0:
                        feats.add('%s-with-pending' % e.kind)
                    if irc == EBADID:
                        fail('valid-id:refused', '%s of the open id %d returned NC_EBADID' % (e.kind, i), j)
                    elif irc != want:
                        fail('close:return-code', '%s of id %d with %d pending requests returned %d, expected %d' % (e.kind, i, open_ids[i], irc, want), j)
                    if irc != EBADID:
                        del open_ids[i]
                        if e.kind == 'abort' and idinfo.get(i, {}).get('new'):
                            fexists[idinfo[i]['fs']] = False       # abort of a file still in its first define mode removes it
            else:
                ispost = opname in POSTS
                coq.append(('EPost (%d)' if (e.kind == 'post') else 'EApi (%d)') % i)
                if not valid:
                    if irc != EBADID:
                        fail('bad-id:accepted', '%s with id %d, which is not open, returned %d instead of NC_EBADID' % (opname, i, irc), j)
                else:
                    if irc == EBADID:
                        fail('valid-id:refused', '%s with the open id %d returned NC_EBADID' % (opname, i), j)
                    elif (e.inquiry or e.kind == 'post') and irc != 0 and not (opname == 'iput' and irc == EPERM):
                        fail('valid-id:call-failed', '%s with the open id %d returned %d' % (opname, i, irc), j)
                    if ispost and irc == 0:
                        open_ids[i] += 1
                    if irc == 0 and opname in ('enddef', '_enddef') and i in idinfo:
                        idinfo[i]['new'] = False
                    if irc == 0 and (opname == 'cancel' or (opname == 'wait' and len(t) > 2 and t[2] == '-1')):
                        open_ids[i] = 0
        # table probe after the event
        if pj < len(probes):
            cnt, listed, ids = probes[pj]
            if cnt != len(open_ids) or listed != len(open_ids) or sorted(ids) != sorted(open_ids):
                fail('inq_files_opened:mismatch', 'after %s: ncmpi_inq_files_opened says %d files %s, the ids handed out and not released are %s'
                     % (e.what, cnt, sorted(ids)[:12], sorted(open_ids)[:12]), j)
        elif rc == 0:
            fail('harness:no-probe', 'no table probe after ' + e.what, j)
    else:
        if rc != 0:
            fail('crash:at-exit', 'the process %s after the last event (exit code %s)' % ('hung' if rc == -9 else 'died', rc), len(evs) - 1)
        elif open_ids:
            fail('harness:files-left-open', 'history left %s open' % sorted(open_ids), len(evs) - 1)
    return fails, coq, obs, feats


# ------------------------------------------------------------------ model (Coq, vm_compute)
def model_results(hists, wd, tag):
    """hists: list of lists of Coq event strings -> list of (list of (rc, ncid), numfiles, heap); None on failure"""
    txt = ['From Coq Require Import ZArith List.', 'From Pnc Require Import Gen_consts Files.', 'Import ListNotations.',
           'Local Open Scope Z_scope.', 'Set Printing Depth 10000000.', 'Set Printing Width 1000.',
           'Definition cases : list (list ev) := [']
    txt.append(';\n'.join('  [' + '; '.join(h) + ']' for h in hists))
    txt.append('].')
    txt.append('Eval vm_compute in (map (fun h => (run_codes h, final_numfiles h, final_heap h)) cases).')
    name = 'Cases_%s' % tag
    open(os.path.join(wd, name + '.v'), 'w').write('\n'.join(txt) + '\n')
    for attempt in (0, 1):
        rc, out = C.sh(['coqc', '-Q', C.COQ, 'Pnc', '-w', '-all', name + '.v'], cwd=wd, timeout=900)
        if rc == 0:
            break
        if attempt == 0:
            # e.g. Files.vo older than a regenerated Gen_modes.vo because the proof build stopped early
            C.coq_make(['Files.vo'])
    if rc != 0:
        return None, out[-1500:]
    body = out[out.index('='):]
    nums = [int(x) for x in re.findall(r'-?\d+', body.replace('%Z', ''))]
    res = []
    p = 0
    try:
        for h in hists:
            n = len(h)
            ev = [(nums[p + 2 * j], nums[p + 2 * j + 1]) for j in range(n)]
            p += 2 * n
            res.append((ev, nums[p], nums[p + 1]))
            p += 2
    except IndexError:
        return None, 'cannot parse the model output'
    if p != len(nums):
        return None, 'cannot parse the model output (%d of %d numbers consumed)' % (p, len(nums))
    return res, ''


# ------------------------------------------------------------------ the 1024-file harness
def run_limit(exe, wd, tag, debug):
    d = os.path.join(wd, 'lim-' + tag)
    os.makedirs(d, exist_ok=True)
    e = dict(os.environ); e.update(C17_REPORT=os.path.join(d, 'rep'), PNETCDF_SAFE_MODE='0')
    rc, out = C.sh([exe, d, '3'], timeout=900, env=e)
    obs = []
    for l in out.split('\n'):
        p = l.split()
        if p and not l.startswith('Warning') and all('=' in x for x in p[1:]):
            obs.append((p[0], dict(x.split('=', 1) for x in p[1:])))
    rep = [l.strip() for l in open(os.path.join(d, 'rep.0'))] if os.path.exists(os.path.join(d, 'rep.0')) else []
    residues = sorted({re.sub(r'buf=0x[0-9a-f]+ ', '', l) for l in out.split('\n') if l.startswith('Warning: malloc')})
    shutil.rmtree(d, ignore_errors=True)
    # judge: nothing about which ids are handed out, only validity / distinctness / the bound / the table listing
    bad = []
    def I(v, k):
        try: return int(v[k])
        except (KeyError, ValueError): return None
    want_held = {'full': MAXF, 'after_refused': MAXF, 'after_low_close': MAXF - 3, 'full_again': MAXF, 'empty': 0}
    seen = set()
    for key, v in obs:
        seen.add(key if key != 'probe' else 'probe:' + v.get('tag', ''))
        if key == 'fill' and (I(v, 'bad_rc') or I(v, 'bad_id')):
            bad.append(('fill', 'filling the table: %s creates failed, %s returned an invalid or duplicate id' % (v.get('bad_rc'), v.get('bad_id'))))
        elif key == 'probe':
            w = want_held.get(v.get('tag'))
            if not (I(v, 'count') == I(v, 'listed') == I(v, 'held') == w and I(v, 'list_bad') == 0):
                bad.append(('table-listing', 'at "%s": inq_files_opened count %s, listed %s (%s entries not held), ids held by the program %s, expected %s'
                            % (v.get('tag'), v.get('count'), v.get('listed'), v.get('list_bad'), v.get('held'), w)))
        elif key in ('refused', 'reopen17', 'again') and I(v, 'rc') == 0 and I(v, 'id_bad'):
            why = {1: 'is outside 0..NC_MAX_NFILES-1: the handle is lost, it can be neither used nor closed', 2: 'is the id of a file that is still open'}[I(v, 'id_bad')]
            bad.append(('create-open:invalid-id' if I(v, 'id_bad') == 1 else 'create-open:duplicate-id',
                        '%s (%s #%s, %s ids held by the program) returned NC_NOERR with ncid %s, which %s'
                        % (v.get('kind'), key, v.get('i'), 'NC_MAX_NFILES' if key == 'refused' else 'fewer than NC_MAX_NFILES', v.get('ncid'), why)))
        elif key == 'refused' and not (I(v, 'rc') == ENFILE and I(v, 'ncid') == -1):
            bad.append(('not-refused', '%s #%s with NC_MAX_NFILES files open: rc %s ncid %s (expected NC_ENFILE, -1)' % (v.get('kind'), v.get('i'), v.get('rc'), v.get('ncid'))))
        elif key in ('reopen17', 'again') and not (I(v, 'rc') == 0 and I(v, 'use_rc') == 0):
            bad.append(('reopen-after-low-close', '%s %s with a free slot in the table: rc %s, ncid %s, first use rc %s'
                        % (key, v.get('kind'), v.get('rc'), v.get('ncid'), v.get('use_rc'))))
        elif key in ('low_close', 'close17') and not (I(v, 'rc') == 0 and I(v, 'after_rc') == EBADID):
            bad.append(('close', '%s of id %s: rc %s, use afterwards rc %s (expected 0, NC_EBADID)' % (key, v.get('ncid'), v.get('rc'), v.get('after_rc'))))
        elif key == 'close_all' and (I(v, 'bad_rc') or I(v, 'still_held')):
            bad.append(('close', 'closing everything: %s closes failed, %s ids still held' % (v.get('bad_rc'), v.get('still_held'))))
        elif key == 'close_after_all' and I(v, 'rc') != EBADID:
            bad.append(('bad-id:accepted', 'close of id 0 after everything was closed: rc %s' % v.get('rc')))
    for need in ('fill', 'probe:full', 'probe:after_low_close', 'probe:full_again', 'probe:empty', 'refused', 'again', 'close_all', 'close_after_all'):
        if need not in seen:
            bad.append(('incomplete', 'the harness did not reach "%s" (exit code %s): %s' % (need, rc, out[-300:])))
            break
    return dict(rc=rc, obs=obs, rep=rep, residues=residues, bad=bad, out=out[-1500:])


# ------------------------------------------------------------------ named resource scenarios (observed part)
def scenarios():
    x, v, r_, t = hx('x'), hx('v'), hx('r'), hx('t')
    base = ['* create 0 1 1', '* def_dim 0 %s -1' % t, '* def_dim 0 %s 4' % x, '* def_var 0 %s 4 1 1' % v, '* def_var 0 %s 4 2 0 1' % r_,
            '* put_att 0 -1 %s 4 1 5' % hx('a')]
    S_ = []
    def sc(name, lines, np_=1, pre=None, env=None):
        S_.append(dict(name=name, lines=lines, np=np_, pre=pre, env=env))
    sc('plain', base + ['* enddef 0', '* put 0 c 0 vara t4 c 1 0 4 pat 1', '* get 0 c 0 var t4 c', '* close 0'])
    sc('close-in-define-mode', base + ['* close 0'])
    sc('close-with-attached-buffer', base + ['* enddef 0', '* attach 0 4096', '* close 0'])
    sc('close-with-pending-bput', base + ['* enddef 0', '* attach 0 4096', '* bput 0 1 0 vara t4 c 1 0 4 pat 1', '* close 0'])
    sc('close-with-pending-iput-iget', base + ['* enddef 0', '* iput 0 1 0 vara t4 c 1 0 4 pat 1', '* iget 0 2 0 vara t4 c 1 0 4',
                                              '* iput 0 3 1 vara x4 v 2 1 2 2 0 0 1 2 pat 2', '* close 0'])
    sc('abort-with-pending-iput', base + ['* enddef 0', '* iput 0 1 0 vara t4 c 1 0 4 pat 1', '* abort 0'])
    sc('abort-with-pending-iget', base + ['* enddef 0', '* iget 0 1 0 vara t4 c 1 0 4', '* abort 0'])
    sc('abort-with-attached-buffer', base + ['* enddef 0', '* attach 0 4096', '* abort 0'])
    sc('abort-new-file', base + ['* abort 0'])
    sc('abort-after-redef', base + ['* enddef 0', '* redef 0', '* def_var 0 %s 4 1 1' % hx('w'), '* abort 0'])
    sc('abort-in-indep-mode', base + ['* enddef 0', '* begin_indep 0', '* put 0 i 0 vara t4 c 1 0 4 pat 1', '* abort 0'])
    sc('create-noclobber-existing', base + ['* enddef 0', '* close 0', '* create 0 1 0', '* create 0 1 0'])
    sc('open-missing', ['* open 5 0', '* open 5 1'])
    sc('open-not-netcdf', ['* junk 6 64 3', '* open 6 0', '* junk 6 5 3', '* open 6 1'])
    sc('open-corrupt-header', ['* open 4 0', '* open 4 1'], pre='corrupt4')
    sc('enddef-fails-varsize', ['* create 0 1 1', '* def_dim 0 %s 2147483000' % x, '* def_var 0 %s 6 1 0' % v, '* def_var 0 %s 6 1 0' % hx('w'),
                                '* enddef 0', '* close 0'])
    sc('redef-grows-header', base + ['* enddef 0', '* put 0 c 0 vara t4 c 1 0 4 pat 1', '* put 0 c 1 vara t4 c 2 0 0 2 4 pat 2', '* redef 0',
                                     '* put_att 0 -1 %s 2 600 %s' % (hx('big'), ' '.join(['65'] * 600)), '* def_var 0 %s 5 2 0 1' % hx('n'),
                                     '* enddef 0', '* close 0'])
    sc('fill-mode', ['* create 0 5 1', '* set_fill 0 0', '* def_dim 0 %s -1' % t, '* def_dim 0 %s 4' % x, '* def_var 0 %s 4 1 1' % v,
                     '* def_var 0 %s 6 2 0 1' % r_, '* def_var_fill 0 1 0 1 7', '* enddef 0', '* fill_var_rec 0 1 0', '* fill_var_rec 0 1 3', '* close 0'])
    sc('strided-mapped-varn', base + ['* enddef 0', '* put 0 c 1 vars t4 c 2 0 0 2 2 1 2 pat 1', '* put 0 c 1 varm t4 c 2 0 0 2 2 1 2 1 2 pat 2',
                                      '* get 0 c 1 varm t4 c 2 0 0 2 2 1 1 1 2', '* put 0 c 1 varn t4 c 2 2 0 0 1 2 2 2 1 2 pat 3',
                                      '* get 0 c 1 varn t4 c 2 2 0 0 1 2 2 2 1 2', '* iput 0 1 1 varn t4 c 2 2 4 0 1 2 5 2 1 2 pat 4',
                                      '* iget 0 2 1 vars t4 c 2 0 0 2 2 1 2', '* wait 0 c -1', '* close 0'])
    sc('flexible-vector-buffers', base + ['* enddef 0', '* put 0 c 0 vara x4 v 2 1 3 1 0 2 pat 1', '* get 0 c 0 vara x4 v 2 1 3 1 0 2',
                                          '* put 0 c 0 vara x6 c 2 1 0 2 pat 5', '* iput 0 1 0 vara x4 v 2 1 3 1 2 2 pat 2', '* wait 0 c -1', '* close 0'])
    sc('rejected-data-calls', base + ['* enddef 0', '* put 0 c 99 vara t4 c 1 0 4 pat 1', '* put 0 c 0 vara t4 c 1 3 4 pat 1', '* put 0 c 0 vara t4 c 1 -1 1 pat 1',
                                      '* get 0 c 1 vara t4 c 2 9 0 1 4', '* put 0 c 0 vars t4 c 1 0 2 0 pat 1', '* put 0 i 0 vara t4 c 1 0 4 pat 1',
                                      '* iput 0 1 0 vara t4 c 1 3 4 pat 1', '* iput 0 2 99 vara t4 c 1 0 4 pat 1', '* put 0 c 0 vara x4 c 3 1 0 4 pat 1',
                                      '* put 0 c 1 varn t4 c 1 2 0 9 1 1 pat 1', '* get 0 c 1 var t2 c', '* wait 0 c 2 5 6', '* cancel 0 1 7', '* close 0'])
    sc('rejected-define-calls', base + ['* def_dim 0 %s 4' % x, '* def_dim 0 %s -1' % hx('u'), '* def_var 0 %s 4 1 1' % v, '* def_var 0 %s 4 1 9' % hx('w'),
                                        '* def_var 0 %s 99 0' % hx('w'), '* put_att 0 9 %s 4 1 5' % hx('a'), '* put_att 0 -1 %s 99 1 5' % hx('b'),
                                        '* rename_var 0 0 %s' % r_, '* rename_dim 0 9 %s' % hx('q'), '* del_att 0 -1 %s' % hx('zz'),
                                        '* def_var_fill 0 9 0 0 0', '* enddef 0', '* def_dim 0 %s 3' % hx('q'), '* redef 0', '* redef 0', '* close 0'])
    sc('attributes', base + ['* put_att 0 0 %s 2 3 65 66 67' % hx('s'), '* put_att 0 0 %s 6 2 1 2' % hx('d'), '* rename_att 0 0 %s %s' % (hx('s'), hx('s2')),
                             '* copy_att 0 0 %s 0 1' % hx('d'), '* del_att 0 0 %s' % hx('d'), '* enddef 0', '* put_att 0 -1 %s 4 1 9' % hx('a'),
                             '* get_att 0 0 %s' % hx('s2'), '* close 0', '* open 0 0', '* get_att 0 1 %s' % hx('d'), '* inq 0', '* close 0'])
    sc('hints', ['hint nc_header_align_size 1024', 'hint nc_var_align_size 64', 'hint romio_cb_write enable', '* create 0 2 1'] + base[1:] +
       ['* enddef 0', '* close 0', 'hint nc_header_read_chunk_size 256', '* open 0 1', '* redef 0', '* enddef 0', '* close 0'],
       env={'PNETCDF_HINTS': 'nc_record_align_size=8;nc_in_place_swap=disable'})
    sc('many-files-out-of-order', ['* create 0 1 1', '* create 1 2 1', '* create 2 5 1', '* create 3 1 1', '* close 1', '* enddef 0', '* create 1 1 1',
                                   '* abort 3', '* close 0', '* open 0 0', '* close 2', '* close 1', '* close 0'])
    sc('sync-and-modes', base + ['* enddef 0', '* sync 0', '* begin_indep 0', '* put 0 i 1 vara t4 c 2 1 0 1 4 pat 1', '* sync 0', '* sync_numrecs 0',
                                 '* end_indep 0', '* begin_indep 0', '* redef 0', '* enddef 0', '* flush 0', '* close 0'])
    sc('safe-mode', base + ['* enddef 0', '* put 0 c 0 vara t4 c 1 0 4 pat 1', '* put 0 c 99 vara t4 c 1 0 4 pat 1', '* redef 0', '* def_dim 0 %s 2' % hx('k'),
                            '* enddef 0', '* close 0'], env={'PNETCDF_SAFE_MODE': '1'})
    # 2 ranks: independent file handle, collective header writes, record growth
    sc('np2-indep-close', base + ['* enddef 0', '* begin_indep 0', '0 put 0 i 0 vara t4 c 1 0 2 pat 1', '1 put 0 i 0 vara t4 c 1 2 2 pat 1', '* close 0'], np_=2)
    sc('np2-pending-close', base + ['* enddef 0', '0 iput 0 1 0 vara t4 c 1 0 2 pat 1', '1 iput 0 1 0 vara t4 c 1 2 2 pat 1', '* close 0'], np_=2)
    sc('np2-abort-pending', base + ['* enddef 0', '0 iput 0 1 0 vara t4 c 1 0 2 pat 1', '1 iget 0 1 0 vara t4 c 1 2 2', '* abort 0'], np_=2)
    sc('np2-failing-create-open', base + ['* enddef 0', '* close 0', '* create 0 1 0', '* open 5 0', '* open 0 0', '* close 0'], np_=2)
    sc('np2-rejected-collective', base + ['* enddef 0', '{', '0 put 0 c 0 vara t4 c 1 0 2 pat 1', '1 put 0 c 0 vara t4 c 1 3 4 pat 1', '}',
                                          '{', '0 put 0 c 99 vara t4 c 1 0 2 pat 1', '1 put 0 c 0 vara t4 c 1 2 2 pat 1', '}', '* close 0'], np_=2)
    return S_


# ------------------------------------------------------------------ the check
def run(ctx):
    lib = C.libdir()
    try:
        pr = C.prove(ctx.pid, gens=('consts', 'modes'), lib=lib)
        proof_ok = ctx.add_proof(pr, CHECKER_CMD)
    except C.BuildFailure as e:
        # a source shape the translator does not know: no proof — but the implementation is still examined below
        pr = dict(failed=['translator: ' + str(e)[-400:]], log=str(e)[-2000:])
        proof_ok = False
        ctx.cov['obligations'] = max(ctx.cov['obligations'], 1)
    ctx.cov['trusted_base'] = list(C.TRUSTED_COMMON) + [
        'translator tools/tr_modes.py (shape of PNC_check_id / new_id_PNCList / del_from_PNCList, ENFILE exits of ncmpi_create / ncmpi_open)',
        'model runs by coqc Eval vm_compute on generated Cases_*.v; rendering of events to script lines and the log-only oracle in checks/C17.py',
        'harness/pnc_impl.c, harness/c17_limit.c, harness/c17_shim.c (PMPI interposition: counts are of calls made through the MPI_ API names; '
        'ncmpi_inq_files_opened sampled at every script barrier)',
        'resource part: ncmpi_inq_malloc_size of a --enable-debug build (NCI_Malloc tracing of the library itself)']
    wd = C.scratch('c17.')
    thorough = ctx.tier == 'thorough'
    libd = C.libdir('debug')
    shim = os.path.join(C.VERIF, 'harness', 'c17_shim.c')
    impl_shim = C.build_c(lib, [S.IMPL_SRC, shim], 'c17_impl')
    impl_dbg = C.build_c(libd, [S.IMPL_SRC, shim], 'c17_impl')
    limit = C.build_c(lib, [os.path.join(C.VERIF, 'harness', 'c17_limit.c'), shim], 'c17_limit')
    limit_dbg = C.build_c(libd, [os.path.join(C.VERIF, 'harness', 'c17_limit.c'), shim], 'c17_limit')

    # ------------- A1. id table: histories on the implementation, judged from the log alone
    hists = fixed_histories()
    nrand = 1200 if thorough else 160
    for i in range(nrand):
        rng = ctx.rng.fork('life-%d' % i)
        hists.append(('life-%d' % i, gen_history(rng, 12 + rng.below(30))))
    stats = dict(histories=len(hists), events=0, by_kind={}, by_rc={}, oracle_failures=0, crashed=0, table_probes=0, compared_with_model=0,
                 ids_not_open_refused=0, ids_open_accepted=0)
    def one(k):
        name, evs = hists[k]
        script, where = script_of(evs)
        return (k, script, where) + run_impl(impl_shim, script, wd, 'h%d' % k, timeout=120)
    oracle = {}            # key -> list of (len(script), name, what, script, event index)
    judged = {}
    leak_hits = {}
    with cf.ThreadPoolExecutor(max_workers=8) as ex:
        for k, script, where, rc, out, logs, reps, probes in ex.map(one, range(len(hists))):
            name, evs = hists[k]
            lg, lastline = logs[0]
            fails, coq, obs, feats = judge(evs, where, rc, out, lg, lastline, probes[0])
            judged[k] = (fails, coq, obs, feats, script)
            ctx.count(name + ' ' + ' | '.join(l for e in evs for l in e.lines), nontrivial=any(o[0] != 0 for o in obs))
            stats['events'] += len(obs)
            stats['table_probes'] += len(probes[0])
            if rc != 0:
                stats['crashed'] += 1
            for e, o in zip(evs, obs):
                stats['by_kind'][e.kind] = stats['by_kind'].get(e.kind, 0) + 1
                stats['by_rc'][str(o[0])] = stats['by_rc'].get(str(o[0]), 0) + 1
                if e.kind not in ('create', 'open'):
                    stats['ids_not_open_refused' if o[0] == EBADID else 'ids_open_accepted'] += 1
            for f in fails:
                stats['oracle_failures'] += 1
                oracle.setdefault(f['key'], []).append((len(script), name, f['what'], script, f['event'], k))
            if not fails and rc == 0 and reps[0]:
                for kind, detail in leaks_of(parse_report(reps[0][-1]), debug=False):
                    leak_hits.setdefault(('history:' + '+'.join(sorted(feats)) if feats else 'history', kind), []).append(dict(history=name, detail=detail, script=script))

    # ------------- B. the real limit (implementation only)
    lim = {}
    for tag, exe, dbg in (('default', limit, False), ('debug', limit_dbg, True)):
        lim[tag] = run_limit(exe, wd, tag, dbg)
        ctx.count('limit-' + tag, nontrivial=True)

    # ------------- A2. the same histories, with the ids that were observed, on the model
    mism, model_err = [], None
    sel = [k for k in range(len(hists)) if all(c is not None for c in judged[k][1]) and judged[k][1]]
    models = {}
    for j in range(0, len(sel), 300):
        part = sel[j:j + 300]
        try:
            res, err = model_results([judged[k][1] for k in part], wd, 'a%d' % j)
        except Exception as e:           # noqa: the model side must never hide what the implementation showed
            res, err = None, repr(e)
        if res is None:
            model_err = err
            break
        for k, r in zip(part, res):
            models[k] = r
    for k, (mres, mnum, mheap) in models.items():
        name, evs = hists[k]
        fails, coq, obs, feats, script = judged[k]
        for e, c, o, m in zip(evs, coq, obs, mres):
            stats['compared_with_model'] += 1
            if m == (-7777, -7777):
                # the model (check as read from file.c) says NULL dereference: the implementation must have died here
                mism.append(dict(history=name, event=c, what=e.what, impl=list(o), model='crash', script=script))
                break
            if e.kind in ('create', 'open'):
                bad = (o[0] != m[0]) or (o[1] != m[1])
            elif e.kind in ('close', 'abort', 'post') or e.inquiry:
                bad = o[0] != m[0]
            else:
                bad = (o[0] == EBADID) != (m[0] == EBADID)       # any family on an id: only refused / not refused is modelled
            if bad:
                mism.append(dict(history=name, event=c, what=e.what, impl=list(o), model=list(m), script=script))
                break

    # ------------- C. resources: named scenarios + the lifecycle histories on the debug build + the communicator lifecycle
    crashes = []
    scen = scenarios()
    def run_scen(s):
        script = '\n'.join(['nprocs %d' % s['np'], 'env PNETCDF_SAFE_MODE=0'] + s['lines']) + '\n'
        return (s['name'], script) + run_impl(impl_dbg, script, wd, 'sc-' + s['name'], env=s.get('env'), np_=s['np'], timeout=180)
    with cf.ThreadPoolExecutor(max_workers=6) as ex:
        for name, script, rc, out, logs, reps, probes in ex.map(run_scen, scen):
            ctx.count('scenario ' + name + '\n' + script, nontrivial=True)
            if rc != 0:
                crashes.append(dict(what='scenario %s: %s' % (name, logs[0][1] or ''), rc=rc, script=script, detail=out[-500:]))
                continue
            for r, rp in enumerate(reps):
                if not rp:
                    continue
                for kind, detail in leaks_of(parse_report(rp[-1]), debug=True):
                    residues = sorted({re.sub(r'buf=0x[0-9a-f]+ ', '', l) for l in out.split('\n') if l.startswith('Warning: malloc')})
                    leak_hits.setdefault((name, kind), []).append(dict(history=name, detail=detail, script=script, rank=r, residues=residues[:12]))
    def run_life(k):
        script = judged[k][4]
        return (k,) + run_impl(impl_dbg, script, wd, 'd%d' % k, timeout=120)
    sel = [k for k in range(len(hists)) if not judged[k][0]]
    if not thorough:
        sel = sel[:60]
    nlife = 0
    with cf.ThreadPoolExecutor(max_workers=8) as ex:
        for k, rc, out, logs, reps, probes in ex.map(run_life, sel):
            nlife += 1
            if rc != 0 or not reps[0]:
                continue
            for kind, detail in leaks_of(parse_report(reps[0][-1]), debug=True):
                residues = sorted({re.sub(r'buf=0x[0-9a-f]+ ', '', l) for l in out.split('\n') if l.startswith('Warning: malloc')})
                feats = sorted(judged[k][3])
                leak_hits.setdefault(('history:' + '+'.join(feats) if feats else 'history', kind), []).append(
                    dict(history=hists[k][0], detail=detail, script=judged[k][4], residues=residues[:12]))
    nmodes = 0
    try:
        from checks import C14
        mexe = C14.modes_exe()
        starts = [(s_, r_) for s_ in ('created', 'rw', 'ro') for r_ in (1, 0)]
        descs = list(C14.enum_descs(3, starts, 0, 'enum'))
        stride = max(1, len(descs) // (400 if thorough else 40))
        pick = [descs[i] for i in range(ctx.seed % stride, len(descs), stride)]
        def run_modes(desc):
            script, _ = C14.history_script(desc, mexe)
            return (desc, script) + run_impl(impl_dbg, script, wd, 'm-' + hashlib.sha1(script.encode()).hexdigest()[:10], timeout=180)
        with cf.ThreadPoolExecutor(max_workers=8) as ex:
            for desc, script, rc, out, logs, reps, probes in ex.map(run_modes, pick):
                nmodes += 1
                ctx.count('modes-sample ' + C14.desc_tag(desc), nontrivial=True)
                if rc != 0 or not reps[0]:
                    continue       # crashes of these scripts are C14's business
                for kind, detail in leaks_of(parse_report(reps[0][-1]), debug=True):
                    residues = sorted({re.sub(r'buf=0x[0-9a-f]+ ', '', l) for l in out.split('\n') if l.startswith('Warning: malloc')})
                    leak_hits.setdefault(('modes-script', kind), []).append(dict(history=C14.desc_tag(desc), detail=detail, script=script, residues=residues[:12]))
    except Exception as e:            # model of C14 not buildable on this tree: the sample is skipped, nothing else
        ctx.cov['modes_sample_skipped'] = repr(e)[-300:]
    comm_obs = {}
    for np_ in (1, 2):
        d = os.path.join(wd, 'comm%d' % np_)
        os.makedirs(d, exist_ok=True)
        rc, out = C.mpirun(np_, limit_dbg, [d, 'comm'], env={'C17_REPORT': os.path.join(d, 'rep'), 'PNETCDF_SAFE_MODE': '0'}, timeout=300)
        reps = []
        for r in range(np_):
            p = os.path.join(d, 'rep.%d' % r)
            reps.append([l.strip() for l in open(p)] if os.path.exists(p) else [])
        comm_obs[np_] = dict(rc=rc, out=out[-1500:], reps=reps)
        ctx.count('comm-lifecycle np=%d' % np_, nontrivial=True)
        shutil.rmtree(d, ignore_errors=True)

    stats['resource_scenarios'] = len(scen)
    stats['lifecycle_histories_on_debug_build'] = nlife
    stats['mode_machine_scripts_on_debug_build'] = nmodes
    ctx.cov['rule'] = ('id table: %d hand-written + %d generated histories of 12-42 events (create ok / NOCLOBBER-existing, open ok / missing / not netCDF / '
                       '5-byte file / corrupt header, close, abort, inquiries and nonblocking posts on open ids, %d API families through released or unused '
                       'slots, %d families on literal negative / huge / boundary / never-used ids); ids are whatever the library returned; after every event '
                       'ncmpi_inq_files_opened is sampled; judged by the log-only oracle, then compared with the Coq model; non-trivial = some call is refused. '
                       'harness c17_limit: NC_MAX_NFILES files, refused creates/opens, close low ids out of order, reopen, full again, close all (both builds). '
                       'Resources (OBSERVED): %d named scenarios + the histories on the --enable-debug build with the PMPI shim, the communicator lifecycle on 1 and 2 ranks'
                       % (len(fixed_histories()), nrand, len(API_STALE), len(API_ANY), len(scen)))
    ctx.cov['distribution'] = stats
    ctx.cov['proof_vs_observation'] = dict(
        proved='ncid table: Properties_C17.v (check_id soundness fixed/refuted/partial/current, ids_valid_exactly_between, new_id_finds_free_slot (+ refuted variant), '
               'id_reuse_first_free, max_files, files_independent, table_invariant, pnc_objects_*), tied by return-code/ncid correspondence on the histories above',
        implementation_only_oracle='validity / distinctness of returned ids, NC_EBADID exactly for ids not open, NC_EPENDING exactly with pending requests, '
               'NC_ENFILE exactly with NC_MAX_NFILES files open, ncmpi_inq_files_opened = ids handed out and not released, survival',
        observed='heap = 0 (ncmpi_inq_malloc_size, --enable-debug build) and MPI datatype/communicator/info/file-handle balances (PMPI shim) at MPI_Finalize '
                 'for the scenarios and histories that were run; no model, no proof')
    ctx.cov['limit_harness'] = {k: dict(rc=v['rc'], failures=[b[1] for b in v['bad']][:6], final=v['rep'][-1:]) for k, v in lim.items()}

    # ------------- verdicts
    oracle_failed = False
    # 1a. the log-only oracle on the histories
    for key, items in sorted(oracle.items()):
        oracle_failed = True
        n, name, what, script, j, k = min(items)
        ctx.violation('%s (%d occurrences in %d histories; shortest: %s)' % (what, len(items), len({x[1] for x in items}), name),
                      dict(script=script, history=name, event_index=j, events=ev_dump(hists[k][1]), relation='oracle_ids'), key=key)
    # 1b. the limit (one report per kind of failure, whichever builds show it)
    groups = {}
    for tag, v in lim.items():
        for kk, msg in v['bad']:
            groups.setdefault(kk, []).append((tag, msg, v['out']))
        if v['rep'] and not v['bad']:
            for kind, detail in leaks_of(parse_report(v['rep'][-1]), debug=(tag == 'debug')):
                leak_hits.setdefault(('enfile-refused-create-open', kind), []).append(dict(history='c17_limit ' + tag, detail=detail, residues=v['residues'][:8],
                                                                                           reports=v['rep'], harness='c17_limit', build=tag))
    for kk, items in sorted(groups.items()):
        oracle_failed = True
        tag, msg, outp = items[0]
        key = kk if kk.startswith('create-open:') or kk.startswith('bad-id:') else 'max_files:' + kk
        ctx.violation('%d-file harness (%s build%s): %s%s' % (MAXF, tag, 's' if len({x[0] for x in items}) > 1 else '', msg,
                                                              (' (+%d more observations)' % (len(items) - 1)) if len(items) > 1 else ''),
                      dict(harness='c17_limit', build=tag, failures=[x[1] for x in items][:12], output=outp, relation='oracle_max_files'), key=key)
    for c in crashes:
        oracle_failed = True
        ctx.violation('the implementation died or hung in %s (rc %s)' % (c['what'], c['rc']),
                      dict(script=c['script'], relation='oracle_no_crash', detail=c['detail']), key='crash:' + c['what'].split(':')[0].replace(' ', '-'))
    for np_, v in comm_obs.items():
        if v['rc'] != 0:
            oracle_failed = True
            ctx.violation('communicator lifecycle harness failed (np=%d)' % np_, dict(out=v['out'], harness='c17_limit comm', relation='oracle_no_crash'),
                          key='crash:comm-lifecycle')
        for r, rp in enumerate(v['reps']):
            for line in rp:
                tagl = line.split()[0]
                for kind, detail in leaks_of(parse_report(line), debug=True):
                    if tagl == 'C17' or kind == 'heap':
                        where_ = tagl.replace('C17@', '') if tagl != 'C17' else 'final'
                        leak_hits.setdefault(('comm-lifecycle:' + where_, kind), []).append(dict(history='c17_limit comm np=%d rank %d' % (np_, r), detail=detail,
                                                                                               out=v['out'][-600:], harness='c17_limit comm'))
    # 1c. leaks (OBSERVED part): heap residues grouped by the functions that allocated them (the cause), MPI objects by scenario
    groups = {}
    for (name, kind), hits in sorted(leak_hits.items()):
        for h in hits:
            funcs = sorted({m.group(1) for l in h.get('residues', []) for m in [re.search(r'func=(\w+)', l)] if m})
            if kind == 'heap' and funcs:
                key = 'leak:heap:' + '+'.join(funcs)
            elif kind == 'heap' and name.startswith('comm-lifecycle'):
                key = 'leak:heap:comm-lifecycle'
            else:
                key = 'leak:%s:%s' % (kind, name)
            groups.setdefault(key, []).append((name, kind, h))
    for key, items in sorted(groups.items()):
        if key == 'leak:heap:comm-lifecycle' and any(k.startswith('leak:heap:') and k != key for k in groups):
            continue
        oracle_failed = True
        names = sorted({n for n, _, _ in items})
        name, kind, h = min(items, key=lambda x: len(x[2].get('script', '')) or 10 ** 9)
        ctx.violation('OBSERVED resource imbalance (%s): %s%s; seen in %d runs, scenarios: %s'
                      % (kind, h['detail'], ('; allocated at: ' + '; '.join(re.sub(r'Warning: malloc yet to be freed ', '', x) for x in h.get('residues', [])[:5]))
                         if h.get('residues') else '', len(items), ', '.join(names[:12])),
                      dict(script=h.get('script', ''), scenario=name, kind=kind, detail=h['detail'], residues=h.get('residues', []), relation='observed_resources',
                           scenarios=names, build='debug' if kind == 'heap' else 'default/debug', harness=h.get('harness')), key=key)
    # 2. model vs implementation, proofs
    if model_err is not None:
        ctx.violation('corr_C17_model: the model could not be run on the histories (the implementation-only oracle above was evaluated on all %d of them)'
                      % len(hists), dict(error=model_err, relation='corr_C17_model'), no_input=not oracle_failed)
    if mism:
        m = min(mism, key=lambda x: len(x['script']))
        ctx.violation('corr_C17_rc: model and implementation disagree on a return code or ncid (%d histories), shortest: %s impl %s model %s'
                      % (len(mism), m.get('what'), m.get('impl'), m.get('model')), dict(script=m['script'], event=m['event'], relation='corr_C17_rc',
                                                                                        others=[dict(x, script='') for x in mism[1:8]]), no_input=not oracle_failed)
    if not proof_ok:
        ctx.violation('proof obligations of Properties_C17.v do not check: %s' % pr['failed'],
                      dict(relation='proof', failed=pr['failed'], log=pr['log'][-2000:]), no_input=not oracle_failed)


def replay(ctx, d):
    debug = d.get('build') == 'debug' or (d.get('relation') == 'observed_resources' and d.get('kind') == 'heap')
    lib = C.libdir('debug') if debug else C.libdir()
    shim = os.path.join(C.VERIF, 'harness', 'c17_shim.c')
    wd = C.scratch('c17r.')
    if (d.get('harness') or '').startswith('c17_limit'):
        exe = C.build_c(lib, [os.path.join(C.VERIF, 'harness', 'c17_limit.c'), shim], 'c17_limit')
        if d['harness'].endswith('comm'):
            rc, out = C.mpirun(1, exe, [wd, 'comm'], env={'C17_REPORT': os.path.join(wd, 'rep'), 'PNETCDF_SAFE_MODE': '0'}, timeout=300)
            print(out[-3000:])
            return 1 if rc else 0
        v = run_limit(exe, wd, 'replay', debug)
        for key, val in v['obs']:
            print(key, ' '.join('%s=%s' % kv for kv in val.items()))
        for l in v['rep']:
            print(l)
        for kk, msg in v['bad']:
            print('FAIL [%s] %s' % (kk, msg))
        leaks = leaks_of(parse_report(v['rep'][-1]), debug) if v['rep'] else []
        for l in leaks:
            print('IMBALANCE', l)
        return 1 if (v['bad'] or leaks) else 0
    if not d.get('script'):
        print('no script in this replay file: %s' % d.get('what'))
        return 1
    exe = C.build_c(lib, [S.IMPL_SRC, shim], 'c17_impl')
    np_ = S.nprocs_of(d['script'])
    rc, out, logs, reps, probes = run_impl(exe, d['script'], wd, 'replay', np_=np_, timeout=180)
    k = 0
    lines = d['script'].split('\n')
    for ln, t in sorted(logs[0][0].items()):
        extra = ''
        if t[0] == 'barrier' and k < len(probes[0]):
            extra = '    table: %d files, ids %s' % (probes[0][k][0], probes[0][k][2]); k += 1
        print('%4d %-44s -> %s%s' % (ln, lines[ln - 1][:44] if ln - 1 < len(lines) else '', ' '.join(t[1:])[:60], extra))
    if logs[0][1]:
        print('last line started: ' + logs[0][1])
    print('exit code %s' % rc)
    bad = rc != 0
    if d.get('events'):
        evs = ev_load(d['events'])
        script, where = script_of(evs)
        fails, _, _, _ = judge(evs, where, rc, out, logs[0][0], logs[0][1], probes[0])
        for f in fails:
            print('FAIL [%s] %s' % (f['key'], f['what']))
        bad = bad or bool(fails)
    for rp in reps:
        for l in rp:
            print(l)
            bad = bad or bool(leaks_of(parse_report(l), debug=debug))
    print(out[-1200:])
    return 1 if bad else 0
