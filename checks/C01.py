"""C01 Blocking put/get round-trip fidelity.
Theorems (Properties_C01.v): the byte offsets the library's file view addresses (model of
ncmpio_filetype.c) equal the row-major spec for every shape/request; elements are disjoint.
Tie: API-level correspondence of the extracted model (Exec.v) with the real library on generated
sessions (all access forms, typed/flexible, buffer layouts, 1-4 ranks, decompositions, independent
mode, reopen); specification oracle in Python on the implementation's own observations."""
from pnc import api_check, api_gen

LEVEL = 'proof'
ASSUMPTIONS = ['MPI-IO semantics modelled (a write through a file view lands on the view bytes in order)',
               'concurrent overlapping writes of different ranks are excluded (undefined in MPI-IO)',
               'never-written bytes are undefined (collective buffering may read-modify-write holes)']


def run(ctx):
    gens = [('rw', dict(fn=lambda rng: api_gen.gen_rw_session(rng), share=4)),
            ('big', dict(fn=lambda rng: api_gen.gen_big_session(rng), share=1))]
    api_check.run_api_check(ctx, gens, None, n_quick=30, n_thorough=500,
                            gens_translators=('consts', 'contig'))
