"""C15 Out-of-range requests are rejected and writes stay inside their target.
Theorems (Properties_C15.v): the dispatcher's argument check (model of check_start_count_stride)
accepts only requests that fit (every addressed index inside the shape); for accepted requests the
bytes the file view addresses are exactly the addressed elements' bytes, which lie inside the
variable's own region (fixed: [begin, begin+size); record: inside the record slot).
Tie: API correspondence on sessions with one-perturbation-at-a-time invalid requests, zero-length
requests and buffer-size mismatches (strict and relaxed coordinate bound), oracle on the implementation:
documented error code, file byte-identical after a rejected or zero-length request."""
from pnc import api_check, inv_gen, common as C, session as SS

LEVEL = 'proof'
ASSUMPTIONS = ['MPI-IO / POSIX modelled, not verified']


def run(ctx):
    def judge(sess, r):
        return SS.judge(sess, r) + inv_gen.judge_inv(sess, r)
    gens = [('inv', dict(fn=lambda rng: inv_gen.gen_inv_session(rng), share=1))]
    api_check.run_api_check(ctx, gens, None, n_quick=150, n_thorough=2500, judge=judge,
                            gens_translators=('consts', 'scs'))
