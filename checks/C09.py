"""C09 Numeric type conversion and range checking are exact.

PROOF (coq/Properties_C09.v, lemmas in coq/Proofs_Convert.v): the MODEL is the interpreter
(coq/Convert.v: conv1/convn/api_var/api_att) of the table coq/Gen_ncx.v that tools/tr_ncx.py
regenerates on every run from the preprocessed, m4-generated ncx.c of the tree under test (clang AST:
for each of the 308 functions ncmpix_[pad_]{putn,getn}_NC_<X>_<I> the comparison operators, the
constants as exact integers / binary floats after the usual arithmetic conversions, the conversions of
the source operand, equality special cases, fill source, cast chain, loop shape; anything not
understood becomes BUnrec and breaks the proof).  Theorems: for EVERY source value (all integers, all
finite floats/doubles as exact dyadic numbers, +-Inf, NaN) model = specification (in range <-> min <=
value <= max as real numbers; identity / truncation / round-to-nearest-even; else NC_ERANGE + fill) for
all functions with an integer source and float<->double, for float/double -> 8/16/32-bit integers
except NaN; refuted (witness 2^63, NaN, Inf) + partial (outside the computed exclusion set) for the
rest; n-element loops element-wise; NC_ECHAR; CDF-1/2 NC_BYTE/uchar exemption; attributes.

TIE: (1) the translator, every run; (2) correspondence: harness/c09_conv.c drives the REAL typed and
flexible put/get_var*, put/get_att_* (scratch files, stored bytes read back / planted with POSIX) and
the element-wise functions of libpnetcdf.a directly, on a boundary dictionary GENERATED FROM THE
TABLE'S CONSTANTS (each bound +-1 / next float up/down, 0, +-1, powers of two, NaN, +-Inf, denormals,
random), offending element at first/middle/last position, CDF-2 and CDF-5, variable fill value
present/absent; 2^8 sweeps (quick) and 2^16 sweeps (thorough) for the small types.  Every observation
of the implementation is compared with the extracted Coq model AND judged by the specification
(independent Python oracle with exact rationals, cross-checked against the extracted Coq spec)."""
import os, sys, re, time, json, hashlib, shutil, subprocess
from fractions import Fraction
from concurrent.futures import ThreadPoolExecutor
from pnc import common as C

LEVEL = 'proof'
ASSUMPTIONS = [
    'C semantics modelled, not verified: integer conversions reduce modulo 2^n (gcc/clang), float->integer casts truncate toward zero '
    'and are UNDEFINED when the truncated value does not fit (the model then predicts nothing), int->float and double->float round to nearest even (hardware default mode)',
    'LP64 little-endian host (checked by the translator); byte-order helpers of ncx.c accepted by text identity and exercised by the correspondence run',
    'specification choices: +-Inf is outside the range of every type (also float/double), NaN is representable in float/double only; '
    'default fill of the memory type `long` is NC_FILL_INT (as the variable API does)',
    'the clang-14 front end (types of sub-expressions, implicit conversions) is trusted by the translator',
    'round-to-nearest-even is the Gallina function Convert.rne shared by model and specification (proved: exact on representable values); '
    'its rounding decisions are validated on every run against an independent exact-rational implementation (python oracle) and the hardware casts, not proved nearest',
]

XT = ['BYTE', 'UBYTE', 'SHORT', 'USHORT', 'INT', 'UINT', 'FLOAT', 'DOUBLE', 'INT64', 'UINT64']
IT = ['schar', 'uchar', 'short', 'ushort', 'int', 'uint', 'long', 'float', 'double', 'longlong', 'ulonglong']
XC = ['Schar', 'Uchar', 'Short', 'Ushort', 'Int', 'Uint', 'Float', 'Double', 'Longlong', 'Ulonglong']
IC = ['Schar', 'Uchar', 'Short', 'Ushort', 'Int', 'Uint', 'Long', 'Float', 'Double', 'Longlong', 'Ulonglong']
CLASSIC_X = [0, 2, 4, 6, 7]                       # external types that exist in CDF-1/2
BITS = dict(Schar=(8, 1), Uchar=(8, 0), Short=(16, 1), Ushort=(16, 0), Int=(32, 1), Uint=(32, 0),
            Long=(64, 1), Longlong=(64, 1), Ulonglong=(64, 0))
FMT = dict(Float=(24, 8), Double=(53, 11))        # precision, exponent bits
FILL = dict(Schar=-127, Uchar=255, Short=-32767, Ushort=65535, Int=-2147483647, Uint=4294967295,
            Long=-2147483647, Longlong=-9223372036854775806, Ulonglong=18446744073709551614)
FILLF = Fraction(15) * Fraction(2) ** 119          # 9.9692099683868690e+36
NC_ERANGE, NC_ECHAR = -60, -56


# ---------------------------------------------------------------- exact arithmetic of the oracle
def isflt(t): return t in FMT
def irange(t):
    b, s = BITS[t]
    return (-(1 << (b - 1)), (1 << (b - 1)) - 1) if s else (0, (1 << b) - 1)
def fmax(t):
    p, eb = FMT[t]
    return Fraction((1 << p) - 1) * Fraction(2) ** ((1 << (eb - 1)) - 1 - (p - 1))

def fdec(t, bits):
    """bit pattern -> Fraction | 'nan' | 'inf' | '-inf'"""
    p, eb = FMT[t]
    sign = bits >> (p - 1 + eb)
    be = (bits >> (p - 1)) & ((1 << eb) - 1)
    fr = bits & ((1 << (p - 1)) - 1)
    bias = (1 << (eb - 1)) - 1
    if be == (1 << eb) - 1:
        return 'nan' if fr else ('-inf' if sign else 'inf')
    if be == 0:
        v = Fraction(fr) * Fraction(2) ** (1 - bias - (p - 1))
    else:
        v = Fraction(fr + (1 << (p - 1))) * Fraction(2) ** (be - bias - (p - 1))
    return -v if sign else v

def fenc(t, q, neg_zero=False):
    """Fraction -> bit pattern of the nearest value (ties to even); overflow -> infinity"""
    p, eb = FMT[t]
    bias = (1 << (eb - 1)) - 1
    signbit = 1 << (p - 1 + eb)
    if q == 'nan': return ((1 << eb) - 1) << (p - 1) | (1 << (p - 2))
    if q == 'inf': return ((1 << eb) - 1) << (p - 1)
    if q == '-inf': return signbit | ((1 << eb) - 1) << (p - 1)
    if q == 0: return signbit if neg_zero else 0
    s = signbit if q < 0 else 0
    a = abs(q)
    emin = 1 - bias - (p - 1)
    # exponent e such that a / 2^e in [2^(p-1), 2^p), clamped to emin
    e = a.numerator.bit_length() - a.denominator.bit_length() - p
    while a >= Fraction(2) ** (e + p): e += 1
    while a < Fraction(2) ** (e + p - 1): e -= 1
    e = max(e, emin)
    x = a / Fraction(2) ** e
    m = x.numerator // x.denominator
    r = x - m
    if r > Fraction(1, 2) or (r == Fraction(1, 2) and m & 1): m += 1
    if m == 1 << p: m >>= 1; e += 1
    if m < 1 << (p - 1):                      # subnormal (e == emin)
        return s | m
    be = e - emin + 1
    if be >= (1 << eb) - 1:
        return s | ((1 << eb) - 1) << (p - 1)
    return s | be << (p - 1) | (m - (1 << (p - 1)))

def is_nan_code(t, c):
    return isflt(t) and fdec(t, c) == 'nan'

def val_of(t, code):
    return fdec(t, code) if isflt(t) else code

def same_repr(a, b):
    if isflt(a) or isflt(b): return a == b
    return BITS[a] == BITS[b]

def spec_elem(d, S, D, fill_code, code):
    """the SPECIFICATION for one element: ('ok', code) | ('range', fillcode)
    d 'put'/'get'; fill_code: the variable's fill value (put) or None"""
    if same_repr(S, D):
        return ('ok', code)
    v = val_of(S, code)
    fillc = fill_code if (d == 'put' and fill_code is not None) else (fenc(D, FILLF) if isflt(D) else FILL[D])
    if isflt(D):
        if v == 'nan': return ('ok', fenc(D, 'nan'))
        if v in ('inf', '-inf'): return ('range', fillc)
        if abs(Fraction(v)) > fmax(D): return ('range', fillc)
        if isflt(S):
            sign = (code >> (sum(FMT[S]) - 1)) & 1
            return ('ok', fenc(D, Fraction(v), neg_zero=bool(sign) and v == 0))
        return ('ok', fenc(D, Fraction(v)))
    lo, hi = irange(D)
    if v in ('nan', 'inf', '-inf'): return ('range', fillc)
    if not (lo <= v <= hi): return ('range', fillc)
    z = int(v) if v >= 0 else -int(-v)        # truncation toward zero
    return ('ok', z)


# ---------------------------------------------------------------- dictionary from the table constants
def next_codes(t, c):
    """the float codes adjacent to c (next up / next down in magnitude order)"""
    p, eb = FMT[t]
    sb = 1 << (p - 1 + eb)
    mag = c & (sb - 1)
    out = []
    for dm in (-1, 1):
        m2 = mag + dm
        if 0 <= m2 < ((1 << eb) - 1) << (p - 1) or m2 == ((1 << eb) - 1) << (p - 1):
            out.append((c & sb) | m2)
    if mag == 0: out.append(c ^ sb)
    return out

def float_dict(S, bounds, rng, nrand):
    """codes (bit patterns of format S) around the exact rationals in `bounds` + standard specials"""
    p, eb = FMT[S]
    sb = 1 << (p - 1 + eb)
    codes = set()
    def add(c):
        codes.add(c)
        for n in next_codes(S, c): codes.add(n)
    for b in bounds:
        for q in (b, b + Fraction(1, 2), b - Fraction(1, 2), b + 1, b - 1, b + Fraction(1, 4), b - Fraction(1, 4)):
            add(fenc(S, q))
    for q in (0, 1, -1, Fraction(1, 2), Fraction(-1, 2), Fraction(3, 2), Fraction(-3, 2), Fraction(5, 2), Fraction(-5, 2),
              Fraction(1, 3), Fraction(-99, 100), 127, 128, 255, 256):
        add(fenc(S, Fraction(q)))
    codes.add(sb)                                                  # -0.0
    for k in (7, 8, 15, 16, 24, 31, 32, 52, 53, 62, 63, 64, 65, 100, 127, 128, 1000):
        for sg in (1, -1):
            c = fenc(S, sg * Fraction(2) ** k)
            add(c)
    expall = ((1 << eb) - 1) << (p - 1)
    codes.update([expall, sb | expall,                             # +-Inf
                  expall | (1 << (p - 2)), sb | expall | (1 << (p - 2)),   # quiet NaNs
                  expall | 1, expall | (1 << (p - 2)) | 12345,     # signalling NaN, payload
                  1, sb | 1, (1 << (p - 1)) - 1, 1 << (p - 1), sb | (1 << (p - 1)),   # denormals, min normal
                  expall - 1, sb | (expall - 1)])                  # +-MAX
    if S == 'Double':
        fm = fmax('Float')
        for q in (fm, -fm, fm + Fraction(2) ** 103, fm + Fraction(2) ** 102, -(fm + Fraction(2) ** 103),
                  Fraction(2) ** -149, Fraction(2) ** -150, Fraction(2) ** -151, Fraction(3, 2) * Fraction(2) ** -149,
                  Fraction(2) ** -126, 1 + Fraction(2) ** -24, 1 + Fraction(2) ** -23 + Fraction(2) ** -24,
                  1 + Fraction(2) ** -24 + Fraction(2) ** -50, 16777217, 16777219, Fraction(1, 10), Fraction(2) ** 128):
            add(fenc(S, q))
    for _ in range(nrand):
        codes.add(rng.below(1 << (p + eb)))
        # random finite value of moderate size (most random bit patterns are astronomically large or tiny)
        q = Fraction(rng.range(-(1 << 40), 1 << 40), 1 << rng.range(0, 24)) * (1 << rng.range(0, 30))
        codes.add(fenc(S, q))
    return sorted(codes)

def int_dict(S, bounds, rng, nrand):
    lo, hi = irange(S)
    vals = {0, 1, -1, 2, -2, lo, hi, lo + 1, hi - 1}
    for k in (7, 8, 15, 16, 23, 24, 25, 31, 32, 52, 53, 54, 62, 63, 64):
        for d in (-2, -1, 0, 1, 2):
            vals.add((1 << k) + d); vals.add(-(1 << k) + d)
    for b in bounds:
        fl = b.numerator // b.denominator
        for d in (-2, -1, 0, 1, 2): vals.add(fl + d)
    for _ in range(nrand):
        vals.add(rng.range(lo, hi))
        k = rng.range(1, BITS[S][0])
        vals.add(rng.range(-(1 << k), 1 << k))
    if BITS[S][0] == 64:
        # integers that are not representable in float / double (rounding of int -> float)
        for k in (24, 25, 53, 54, 60, 62):
            for d in (1, 3, (1 << (k - 24)) + 1, (1 << (k - 24)), 3 * (1 << (k - 24))):
                vals.add((1 << k) + d); vals.add(-(1 << k) - d)
    return sorted(v for v in vals if lo <= v <= hi)

def entry_bounds(e):
    """exact rationals of all constants of a table entry (tests, stores, fills)"""
    out = []
    for t in e['tests']:
        out.append(Fraction(t['k']))
        a = t['act']
        if a[0] == 'store': out.append(Fraction(a[1][1]))
    return out

def type_bounds(t):
    if isflt(t): return [fmax(t), -fmax(t)]
    lo, hi = irange(t)
    return [Fraction(lo), Fraction(hi)]


# ---------------------------------------------------------------- running
def chunks(l, n):
    return [l[i:i + n] for i in range(0, len(l), n)]

def run_shards(exe, drv, cmds, work, jobs=8, one_per_process=False):
    """run implementation, model and spec on the command list; returns {id: (impl, model, spec)}"""
    nsh = len(cmds) if one_per_process else max(1, min(jobs, (len(cmds) + 199) // 200))
    shards = [cmds[i::nsh] for i in range(nsh)]
    def one(k):
        d = os.path.join(work, 'sh%d' % k)
        os.makedirs(d, exist_ok=True)
        cf = os.path.join(d, 'cmds.txt')
        with open(cf, 'w') as f:
            f.write('\n'.join(shards[k]) + '\n')
        rc1, o1 = C.sh([exe, cf, d], timeout=1500)
        rc2, o2 = C.sh([drv, 'model', cf], timeout=1500)
        rc3, o3 = C.sh([drv, 'spec', cf], timeout=1500)
        return (rc1, o1, rc2, o2, rc3, o3)
    with ThreadPoolExecutor(max_workers=jobs) as ex:
        outs = list(ex.map(one, range(nsh)))
    res = {}
    problems = []
    for k, (rc1, o1, rc2, o2, rc3, o3) in enumerate(outs):
        if rc1 != 0 and one_per_process:
            cid = shards[k][0].split()[1]
            m_ = re.search(r'Assertion[^\n]*|Signal: [^\n]*', o1)
            res.setdefault(cid, [None, None, None])[0] = ['CRASH', str(rc1), (m_.group(0) if m_ else o1[-200:]).replace(' ', '_')]
            o1 = ''
        elif rc1 != 0: problems.append('harness shard %d rc=%d: %s' % (k, rc1, o1[-400:]))
        if rc2 != 0: problems.append('model driver shard %d rc=%d: %s' % (k, rc2, o2[-400:]))
        if rc3 != 0: problems.append('spec driver shard %d rc=%d: %s' % (k, rc3, o3[-400:]))
        for which, o in ((0, o1), (1, o2), (2, o3)):
            for line in o.split('\n'):
                t = line.split()
                if len(t) < 2: continue
                res.setdefault(t[0], [None, None, None])[which] = t[1:]
    return res, problems


def build_driver(lib):
    """extract Convert.v (model + spec) to OCaml and build the driver; cached on the sources"""
    h = hashlib.sha1()
    for p in ('coq/Gen_ncx.v', 'coq/Convert.v', 'coq/Extract_C09.v', 'harness/c09_driver.ml'):
        h.update(open(os.path.join(C.VERIF, p), 'rb').read())
    exe = os.path.join(C.BUILD, 'c09_driver-' + h.hexdigest()[:12])
    if os.path.isfile(exe):
        return exe
    with C.Lock('coq'):
        d = C.scratch('c09ml.')
        rc, out = C.sh(['coqc', '-Q', C.COQ, 'Pnc', '-w', '-all', '-o', os.path.join(d, 'Extract_C09.vo'),
                        os.path.join(C.COQ, 'Extract_C09.v')], cwd=d, timeout=600)
        if rc != 0 or not os.path.exists(os.path.join(d, 'c09_model.ml')):
            raise C.BuildFailure('extraction of the C09 model failed:\n' + out[-2000:])
    shutil.copy(os.path.join(C.VERIF, 'harness', 'c09_driver.ml'), d)
    rc, out = C.sh('ocamlfind ocamlopt -O2 -package zarith -linkpkg -w -a c09_model.mli c09_model.ml c09_driver.ml -o c09_driver 2>&1 || '
                   'ocamlfind ocamlopt -package zarith -linkpkg -w -a c09_model.mli c09_model.ml c09_driver.ml -o c09_driver', cwd=d, timeout=600)
    if not os.path.isfile(os.path.join(d, 'c09_driver')):
        raise C.BuildFailure('ocaml build of c09_driver failed:\n' + out[-2000:])
    with C.Lock('ocaml-c09'):
        for old in [p for p in os.listdir(C.BUILD) if p.startswith('c09_driver-')]:
            try: os.remove(os.path.join(C.BUILD, old))
            except OSError: pass
        shutil.move(os.path.join(d, 'c09_driver'), exe)
    return exe


# ---------------------------------------------------------------- case generation
class Gen:
    def __init__(self, table, rng, tier):
        self.tab = {(e['mode'], e['pad'], e['X'], e['I']): e for e in table}
        self.rng = rng
        self.tier = tier
        self.cmds = []
        self.meta = {}
        self.n = 0
        self.dicts = {}
        self.dist = dict(api_var_calls=0, api_att_calls=0, leaf_calls=0, sweep_calls=0, echar_calls=0, elements=0)

    def dictionary(self, d, xi, ii):
        """(codes of the source type) for the pair, from the constants of ALL table entries of the pair"""
        key = (d, xi, ii)
        if key in self.dicts: return self.dicts[key]
        S = IC[ii] if d == 'put' else XC[xi]
        D = XC[xi] if d == 'put' else IC[ii]
        bounds = type_bounds(D) + ([] if isflt(S) else type_bounds(S))
        for pad in (False, True):
            e = self.tab.get((d, pad, XT[xi], IT[ii]))
            if e: bounds += entry_bounds(e)
        nr = 6 if self.tier == 'quick' else 60
        r = self.rng.fork('dict-%s-%d-%d' % key)
        codes = float_dict(S, bounds, r, nr) if isflt(S) else int_dict(S, bounds, r, nr)
        self.dicts[key] = codes
        return codes

    def add(self, line_fmt, meta):
        self.n += 1
        cid = 'c%d' % self.n
        self.cmds.append(line_fmt % cid)
        meta['cmd'] = self.cmds[-1]
        self.meta[cid] = meta
        return cid

    def classify(self, d, xi, ii, codes):
        """split the dictionary by the SPEC verdict; UB-suspect values (spec says out of range although the
        value is not beyond the table's own test constants) are simply part of OUT: the oracle judges"""
        S = IC[ii] if d == 'put' else XC[xi]
        D = XC[xi] if d == 'put' else IC[ii]
        IN, OUT = [], []
        for c in codes:
            (IN if spec_elem(d, S, D, None, c)[0] == 'ok' else OUT).append(c)
        return IN, OUT

    def calls_for_pair(self, d, xi, ii):
        """element lists: all-in-range, one offender at first/middle/last (cycling through all offenders), mixed"""
        codes = self.dictionary(d, xi, ii)
        IN, OUT = self.classify(d, xi, ii, codes)
        r = self.rng.fork('calls-%s-%d-%d' % (d, xi, ii))
        lists = []
        for ch in chunks(IN, 48):
            lists.append(('all-in-range', ch))
        base = IN[:]
        r.shuffle(base)
        for k, o in enumerate(OUT):
            b = [base[(k * 3 + j) % len(base)] for j in range(4)] if base else []
            pos = k % 3
            l = ([o] + b) if pos == 0 else (b[:2] + [o] + b[2:]) if pos == 1 else (b + [o])
            lists.append(('offender-%s' % ('first', 'middle', 'last')[pos], l))
        if OUT and IN:
            mixed = codes[:]
            r.shuffle(mixed)
            for ch in chunks(mixed, 64):
                lists.append(('mixed', ch))
        return lists

    def gen_api(self):
        flav = 0
        for d in ('put', 'get'):
            for fmt in (2, 5):
                for xi in range(10):
                    if fmt == 2 and xi not in CLASSIC_X: continue
                    for ii in range(11):
                        D = XC[xi]
                        for k, (kind, l) in enumerate(self.calls_for_pair(d, xi, ii)):
                            n = len(l)
                            cs = ' '.join(str(c) for c in l)
                            # variables
                            flav = (flav + 1) % 4
                            if d == 'put':
                                hasfill = (k % 2 == 1)
                                fillc = (fenc(D, Fraction(-3, 2)) if isflt(D) else (irange(D)[1] - 5)) if hasfill else 0
                                self.add('V %%s %d %d %d %d %d %d %d %s' % (fmt, xi, ii, flav, 1 if hasfill else 0, fillc, n, cs),
                                         dict(api='var', d=d, fmt=fmt, xi=xi, ii=ii, fill=fillc if hasfill else None, codes=l, kind=kind, flav=flav))
                                self.add('A %%s %d %d %d %d %s' % (fmt, xi, ii, n, cs),
                                         dict(api='att', d=d, fmt=fmt, xi=xi, ii=ii, fill=None, codes=l, kind=kind))
                            else:
                                self.add('G %%s %d %d %d %d %d %s' % (fmt, xi, ii, flav, n, cs),
                                         dict(api='var', d=d, fmt=fmt, xi=xi, ii=ii, fill=None, codes=l, kind=kind, flav=flav))
                                self.add('B %%s %d %d %d %d %s' % (fmt, xi, ii, n, cs),
                                         dict(api='att', d=d, fmt=fmt, xi=xi, ii=ii, fill=None, codes=l, kind=kind))
                            self.dist['api_var_calls'] += 1
                            self.dist['api_att_calls'] += 1
        # text / NC_CHAR: never converts
        for fmt in (2, 5):
            for xi in list(range(10)) + [10]:
                if fmt == 2 and xi not in CLASSIC_X + [10]: continue
                for ii in range(12):
                    if xi != 10 and ii != 11: continue
                    l = [65, 0, 127, 1] if (xi == 10 or ii == 11) else [1, 2]
                    cs = ' '.join(str(c) for c in l)
                    for fl in (0, 2):
                        # the flexible API with a mismatching MPI_CHAR/numeric buffer type is run in a process of its own
                        # (an abort of the library must not take the other cases with it); a sample of the pairs suffices
                        iso = (fl == 2 and (xi == 10) != (ii == 11))
                        if iso and not ((xi == 10 and ii in (0, 4, 8)) or (ii == 11 and xi in (0, 4, 7, 9))):
                            continue
                        self.add('V %%s %d %d %d %d 0 0 %d %s' % (fmt, xi, ii, fl, len(l), cs),
                                 dict(api='var', d='put', fmt=fmt, xi=xi, ii=ii, fill=None, codes=l, kind='text', flav=fl, isolate=iso))
                        self.add('G %%s %d %d %d %d %d %s' % (fmt, xi, ii, fl, len(l), cs),
                                 dict(api='var', d='get', fmt=fmt, xi=xi, ii=ii, fill=None, codes=l, kind='text', flav=fl, isolate=iso))
                    if not (ii == 11 and xi != 10):     # ncmpi_put_att_text has no type argument: always NC_CHAR
                        self.add('A %%s %d %d %d %d %s' % (fmt, xi, ii, len(l), cs),
                                 dict(api='att', d='put', fmt=fmt, xi=xi, ii=ii, fill=None, codes=l, kind='text'))
                    self.add('B %%s %d %d %d %d %s' % (fmt, xi, ii, len(l), cs),
                             dict(api='att', d='get', fmt=fmt, xi=xi, ii=ii, fill=None, codes=l, kind='text'))
                    self.dist['echar_calls'] += 6

    # ---- request level: nonblocking batches, blocking varn / mput
    NB_GET = [(4, 2), (7, 1), (5, 4), (4, 3), (7, 4), (6, 0), (8, 4), (9, 9), (2, 0), (7, 7), (4, 7), (3, 2)]
    NB_PUT = [(2, 4), (1, 8), (4, 9), (5, 4), (6, 8), (3, 2), (8, 10)]

    def plain_values(self, d, xi, ii):
        """in-range and out-of-range source values of a pair, without the classes that have findings of their own"""
        S = IC[ii] if d == 'put' else XC[xi]
        IN, OUT = self.classify(d, xi, ii, self.dictionary(d, xi, ii))
        ok = lambda c: value_class(S, c) in ('int', 'finite') or (value_class(S, c) == 'Inf' and not isflt(XC[xi] if d == 'put' else IC[ii]))
        return [c for c in IN if ok(c)], [c for c in OUT if ok(c)]

    def make_req(self, r, kind, xi, ii, bad, n=None):
        """one request: kind 0 iget 1 iput 2 bput; bad = set of element positions that are out of range"""
        d = 'get' if kind == 0 else 'put'
        IN, OUT = self.plain_values(d, xi, ii)
        n = n or r.range(2, 5)
        codes = []
        for j in range(n):
            codes.append(r.choice(OUT) if (j in bad and OUT) else r.choice(IN))
        return dict(kind=kind, xi=xi, ii=ii, codes=codes)

    def add_batch(self, r, fmt, wmode, reqs, label):
        k = len(reqs)
        vs = list(range(k))
        if r.chance(1, 2): r.shuffle(vs)
        elif r.chance(1, 2): vs.reverse()
        perm = list(range(k))
        if r.chance(1, 2): r.shuffle(perm)
        elif r.chance(1, 2): perm.reverse()
        body = ' '.join('%d %d %d %d %d %s' % (q['kind'], vs[i], q['xi'], q['ii'], len(q['codes']), ' '.join(str(c) for c in q['codes']))
                        for i, q in enumerate(reqs))
        self.add('N %%s %d %d %d %s %s' % (fmt, wmode, k, ' '.join(str(x) for x in perm), body),
                 dict(api='nb', d='nb', fmt=fmt, wmode=wmode, reqs=reqs, perm=perm, vslot=vs, kind=label, xi=reqs[0]['xi'], ii=reqs[0]['ii'], codes=[]))
        self.dist['nb_batches'] = self.dist.get('nb_batches', 0) + 1
        self.dist['nb_requests'] = self.dist.get('nb_requests', 0) + k

    def gen_req_level(self):
        r = self.rng.fork('nb')
        rounds = 1 if self.tier == 'quick' else 6
        for _ in range(rounds):
            for k in range(2, 7):
                pats = [('none', set()), ('first', {0}), ('middle', {k // 2}), ('last', {k - 1}),
                        ('first+last', {0, k - 1}), ('all', set(range(k))), ('all-but-first', set(range(1, k)))]
                for name, badreqs in pats:
                    for wmode in (0, 1):
                        # pure iget batch
                        reqs = []
                        for i in range(k):
                            xi, ii = r.choice(self.NB_GET)
                            n = r.range(2, 5)
                            bad = {r.below(n)} | ({r.below(n)} if r.chance(1, 3) else set()) if i in badreqs else set()
                            reqs.append(self.make_req(r, 0, xi, ii, bad, n))
                        self.add_batch(r, 5, wmode, reqs, 'iget-%s' % name)
                        # mixed iget / iput / bput
                        reqs = []
                        for i in range(k):
                            kind = r.choice([0, 0, 1, 2])
                            xi, ii = r.choice(self.NB_GET if kind == 0 else self.NB_PUT)
                            n = r.range(2, 5)
                            bad = {r.below(n)} if i in badreqs else set()
                            reqs.append(self.make_req(r, kind, xi, ii, bad, n))
                        self.add_batch(r, 5, wmode, reqs, 'mixed-%s' % name)
            # classic format, puts only / gets only
            for wmode in (0, 1):
                cl_get = [(4, 2), (7, 1), (7, 4), (6, 0), (2, 0)]
                cl_put = [(2, 4), (4, 9), (6, 8)]
                self.add_batch(r, 2, wmode, [self.make_req(r, 0, *r.choice(cl_get), bad=({0} if i != 1 else set())) for i in range(4)], 'iget-cdf2')
                self.add_batch(r, 2, wmode, [self.make_req(r, r.choice([1, 2]), *r.choice(cl_put), bad=({1} if i % 2 == 0 else set())) for i in range(4)], 'iput-cdf2')
            # blocking put_varn and mput: all in range, one offender first / middle / last
            for (xi, ii) in self.NB_PUT:
                IN, OUT = self.plain_values('put', xi, ii)
                for coll in (0, 1):
                    for pos in (None, 0, 2, 4):
                        codes = [r.choice(IN) for _ in range(5)]
                        if pos is not None and OUT: codes[pos] = r.choice(OUT)
                        self.add('W %%s 5 %d %d %d 5 %s' % (coll, xi, ii, ' '.join(str(c) for c in codes)),
                                 dict(api='varn', d='put', fmt=5, coll=coll, xi=xi, ii=ii, codes=codes, kind='varn-%s' % ('in-range' if pos is None else 'offender@%d' % pos)))
                        self.dist['varn_calls'] = self.dist.get('varn_calls', 0) + 1
                    for badvar in (None, 0, 1, 2):
                        codes = [r.choice(IN) for _ in range(9)]
                        if badvar is not None and OUT: codes[badvar * 3 + r.below(3)] = r.choice(OUT)
                        self.add('M %%s 5 %d %d %d 3 3 %s' % (coll, xi, ii, ' '.join(str(c) for c in codes)),
                                 dict(api='mput', d='put', fmt=5, coll=coll, xi=xi, ii=ii, codes=codes, kind='mput-%s' % ('in-range' if badvar is None else 'offender-var%d' % badvar)))
                        self.dist['mput_calls'] = self.dist.get('mput_calls', 0) + 1

    def gen_leaf(self):
        """direct calls of the element-wise functions: whole dictionary + random volume, NULL and non-NULL fillp,
        padding variants; sweeps of the 8-bit (quick) and 16-bit (thorough) source types"""
        nrand = 150 if self.tier == 'quick' else 4000
        for d in ('put', 'get'):
            for xi in range(10):
                for ii in range(11):
                    S = IC[ii] if d == 'put' else XC[xi]
                    D = XC[xi] if d == 'put' else IC[ii]
                    codes = self.dictionary(d, xi, ii)[:]
                    r = self.rng.fork('leaf-%s-%d-%d' % (d, xi, ii))
                    if isflt(S):
                        p, eb = FMT[S]
                        for _ in range(nrand):
                            if r.chance(1, 2):
                                codes.append(r.below(1 << (p + eb)))
                            else:
                                q = Fraction(r.range(-(1 << 53), 1 << 53), 1 << r.range(0, 40)) * (1 << r.range(0, 70))
                                codes.append(fenc(S, q))
                    else:
                        lo, hi = irange(S)
                        for _ in range(nrand):
                            k = r.range(1, BITS[S][0])
                            codes.append(max(lo, min(hi, r.range(-(1 << k), 1 << k))))
                    for pad in ((0, 1) if xi < 4 else (0,)):
                        for hasfill in ((0, 1) if d == 'put' else (0,)):
                            fillc = (fenc(D, Fraction(7, 4)) if isflt(D) else (irange(D)[0] + 3)) if hasfill else 0
                            e = self.tab.get((d, bool(pad), XT[xi], IT[ii]))
                            nodef = bool(e) and any(t['act'][0] == 'fill' and t['act'][2] is None for t in e['tests'])
                            for ch in chunks(codes, 2000):
                                self.add('L %%s %d %d %d %d %d %d %d %s' % (1 if d == 'put' else 0, pad, xi, ii, hasfill, fillc, len(ch),
                                                                          ' '.join(str(c) for c in ch)),
                                         dict(api='leaf', d=d, pad=pad, xi=xi, ii=ii, fill=fillc if hasfill else None, nullfill=not hasfill,
                                              nodefault=nodef, codes=ch, kind='volume'))
                                self.dist['leaf_calls'] += 1
                            if not isflt(S) and BITS[S][0] <= (8 if self.tier == 'quick' else 16):
                                lo, hi = irange(S)
                                self.add('S %%s %d %d %d %d %d %d %d %d' % (1 if d == 'put' else 0, pad, xi, ii, hasfill, fillc, lo, hi),
                                         dict(api='leaf', d=d, pad=pad, xi=xi, ii=ii, fill=fillc if hasfill else None, nullfill=not hasfill,
                                              nodefault=nodef, codes=None, lo=lo, hi=hi, kind='sweep'))
                                self.dist['sweep_calls'] += 1


# ---------------------------------------------------------------- judging
def sentinel(t):
    """code of an element whose bytes are all 0x5A (destination the library did not touch)"""
    n = (sum(FMT[t]) // 8) if isflt(t) else BITS[t][0] // 8
    return int.from_bytes(b'\x5a' * n, 'big')

def value_class(S, c):
    if isflt(S):
        v = fdec(S, c)
        if v == 'nan': return 'NaN'
        if v in ('inf', '-inf'): return 'Inf'
        for k in (63, 64):
            if v == Fraction(2) ** k: return '2^%d' % k
            if v == -Fraction(2) ** k: return '-2^%d' % k
        return 'finite'
    return 'int'

def expected(m):
    """oracle: expected (status, [(kind, code)]) of a case from the SPECIFICATION (python)"""
    xi, ii, d = m['xi'], m['ii'], m['d']
    codes = m['codes'] if m['codes'] is not None else list(range(m['lo'], m['hi'] + 1))
    if (xi == 10) != (ii == 11):
        return NC_ECHAR, None, codes
    if xi == 10:
        return 0, [('ok', c) for c in codes], codes
    S = IC[ii] if d == 'put' else XC[xi]
    D = XC[xi] if d == 'put' else IC[ii]
    if m['api'] in ('var', 'att') and m['fmt'] < 5 and xi == 0 and ii == 1:
        # CDF-1/2 exemption: the 8 bits are transferred
        b, s = BITS[D]
        out = []
        for c in codes:
            u = c & 0xff
            out.append(('ok', u - 256 if (s and u >= 128) else u))
        return 0, out, codes
    if m['api'] == 'att' and ii == 6:
        pass                                        # `long`: same rule (the spec knows no exception)
    fill = m.get('fill')
    if m['api'] == 'leaf' and d == 'put' and m.get('nullfill'):
        fill = None                                 # default fill of the external type
    out = [spec_elem(d, S, D, fill, c) for c in codes]
    st = NC_ERANGE if any(k == 'range' for k, _ in out) else 0
    return st, out, codes


def parse_nb(tok, with_kinds):
    """tokens after the id of an N line -> (wait rc, [(post, status, kinds, codes)], close rc)"""
    rc = int(tok[0]); k = int(tok[1]); i = 2; out = []
    for _ in range(k):
        assert tok[i] == 'R'
        post, st, n = int(tok[i + 1]), int(tok[i + 2]), int(tok[i + 3]); i += 4
        kinds = None
        if with_kinds:
            kinds = tok[i]; i += 1
        out.append((post, st, kinds, [int(x) for x in tok[i:i + n]])); i += n
    close = int(tok[i + 1]) if i < len(tok) and tok[i] == 'C' else 0
    return rc, out, close


def codes_equal(D, a, b):
    return a == b or (is_nan_code(D, a) and is_nan_code(D, b))


def sentinel_signed(D):
    v = sentinel(D)
    if not isflt(D):
        b, sg = BITS[D]
        if sg and v >= 1 << (b - 1): v -= 1 << b
    return v


def model_elems_match(D, kinds, codes_m, codes_i):
    for j, k in enumerate(kinds):
        if k == '3': continue
        if k == '4': return 'model has no semantics'
        want = sentinel_signed(D) if k == '2' else codes_m[j]
        if not codes_equal(D, want, codes_i[j]):
            return 'element %d: model %s:%d implementation %d' % (j, k, want, codes_i[j])
    return None


def judge_req_level(ctx, m, impl, mod, spc, fail_oracle, fail_corr, fail_internal):
    """N / W / M commands: python oracle on the implementation, extracted spec vs oracle, model vs implementation"""
    if m['api'] == 'nb':
        rc_i, rq_i, close_i = parse_nb(impl, False)
        rc_m, rq_m, _ = parse_nb(mod, True)
        rc_s, rq_s, _ = parse_nb(spc, True)
        wname = 'wait' if m['wmode'] else 'wait_all'
        ctx.count('nonblocking %s k=%d %s post-order(var slots)=%s wait-order=%s %s' % (
            wname, len(m['reqs']), m['kind'], m['vslot'], m['perm'],
            ' | '.join('%s NC_%s %s %s' % (('iget', 'iput', 'bput')[q['kind']], XT[q['xi']], IT[q['ii']], q['codes']) for q in m['reqs'])), nontrivial=True)
        any_get_err = False
        for i, q in enumerate(m['reqs']):
            d = 'get' if q['kind'] == 0 else 'put'
            S = IC[q['ii']] if d == 'put' else XC[q['xi']]
            D = XC[q['xi']] if d == 'put' else IC[q['ii']]
            exp = [spec_elem(d, S, D, None, c) for c in q['codes']]
            er = NC_ERANGE if any(k == 'range' for k, _ in exp) else 0
            exp_post, exp_st = (er, 0) if d == 'put' else (0, er)
            if d == 'get' and er: any_get_err = True
            post_i, st_i, _, codes_i = rq_i[i]
            kn = ('iget', 'iput', 'bput')[q['kind']]
            where = 'request %d of %d (%s NC_%s as %s, values %s)' % (i, len(m['reqs']), kn, XT[q['xi']], IT[q['ii']], q['codes'])
            if st_i != exp_st:
                fail_oracle.setdefault('nb:%s:%s:request-status' % (wname, kn), []).append(
                    (m, '%s: statuses[] entry %d, expected %d (a request is judged on its own data)' % (where, st_i, exp_st)))
            if post_i != exp_post:
                fail_oracle.setdefault('nb:%s:post-status' % kn, []).append((m, '%s: posting call returned %d, expected %d' % (where, post_i, exp_post)))
            if any(not codes_equal(D, c, codes_i[j]) for j, (_, c) in enumerate(exp)):
                fail_oracle.setdefault('nb:%s:%s:data' % (wname, kn), []).append(
                    (m, '%s: stored %s expected %s' % (where, codes_i, [c for _, c in exp])))
            # extracted spec vs oracle
            ps, ss, ks, cs = rq_s[i]
            if (ps, ss) != (exp_post, exp_st) or any(not codes_equal(D, c, cs[j]) for j, (_, c) in enumerate(exp)):
                fail_internal.append('python oracle and extracted Coq spec disagree (request level): ' + m['cmd'][:160])
            # model vs implementation
            pm, sm, km, cm = rq_m[i]
            mm = None
            if (pm, sm) != (post_i, st_i): mm = '%s: model post/status %d/%d implementation %d/%d' % (where, pm, sm, post_i, st_i)
            else:
                e = model_elems_match(D, km, cm, codes_i)
                if e: mm = where + ': ' + e
            if mm: fail_corr.append((m, mm))
        exp_rc = NC_ERANGE if any_get_err else 0
        if rc_i != exp_rc:
            fail_oracle.setdefault('nb:%s:return-value' % wname, []).append((m, '%s returned %d, expected %d' % (wname, rc_i, exp_rc)))
        if rc_s != exp_rc:
            fail_internal.append('oracle/spec disagree on the wait return value: ' + m['cmd'][:120])
        if rc_m != rc_i:
            fail_corr.append((m, '%s return value: model %d implementation %d' % (wname, rc_m, rc_i)))
        if close_i != 0:
            fail_oracle.setdefault('nb:close', []).append((m, 'ncmpi_close returned %d after the batch' % close_i))
        return
    # blocking put_varn / mput:  rc pending close n codes
    xi, ii = m['xi'], m['ii']
    S, D = IC[ii], XC[xi]
    rc_i, pend_i, close_i, n_i = int(impl[0]), int(impl[1]), int(impl[2]), int(impl[3])
    codes_i = [int(x) for x in impl[4:4 + n_i]]
    rc_m, pend_m, close_m, n_m = int(mod[0]), int(mod[1]), int(mod[2]), int(mod[3])
    kinds_m = mod[4] if n_m else ''; codes_m = [int(x) for x in mod[5:5 + n_m]]
    rc_s, pend_s, close_s, n_s = int(spc[0]), int(spc[1]), int(spc[2]), int(spc[3])
    codes_s = [int(x) for x in spc[5:5 + n_s]]
    exp = [spec_elem('put', S, D, None, c) for c in m['codes']]
    exp_rc = NC_ERANGE if any(k == 'range' for k, _ in exp) else 0
    mode = 'collective' if m['coll'] else 'independent'
    call = ('ncmpi_put_varn_%s%s' if m['api'] == 'varn' else 'ncmpi_mput_var_%s%s') % (IT[ii], '_all' if m['coll'] else '')
    ctx.count('%s NC_%s %s values %s' % (call, XT[xi], m['kind'], m['codes']), nontrivial=True)
    if (rc_s, pend_s, close_s) != (exp_rc, 0, 0) or any(not codes_equal(D, c, codes_s[j]) for j, (_, c) in enumerate(exp)):
        fail_internal.append('python oracle and extracted Coq spec disagree (varn/mput): ' + m['cmd'][:160])
    bad = []
    if rc_i != exp_rc: bad.append('returned %d, expected %d' % (rc_i, exp_rc))
    if pend_i != 0: bad.append('%d request(s) still pending after the blocking call' % pend_i)
    if close_i != 0: bad.append('ncmpi_close returned %d' % close_i)
    lost = [j for j, (_, c) in enumerate(exp) if not codes_equal(D, c, codes_i[j])]
    if lost: bad.append('elements %s not transferred as specified: file holds %s, expected %s' % (lost, codes_i, [c for _, c in exp]))
    if bad:
        if exp_rc == NC_ERANGE and (pend_i or lost) and rc_i == NC_ERANGE:
            key = 'put_varn:indep:erange-drops-request' if (m['api'] == 'varn' and not m['coll']) else \
                  ('mput:erange-drops-requests' if m['api'] == 'mput' else 'put_varn:%s:erange' % mode)
        else:
            key = '%s:%s:other' % (m['api'], mode)
        fail_oracle.setdefault(key, []).append((m, '%s to NC_%s with values %s: %s' % (call, XT[xi], m['codes'], '; '.join(bad))))
    mm = None
    if (rc_m, pend_m, close_m) != (rc_i, pend_i, close_i):
        mm = '%s: model status/pending/close %d/%d/%d implementation %d/%d/%d' % (call, rc_m, pend_m, close_m, rc_i, pend_i, close_i)
    else:
        e = model_elems_match(D, kinds_m, codes_m, codes_i)
        if e: mm = call + ': ' + e
    if mm: fail_corr.append((m, mm))


def run(ctx):
    sys.path.insert(0, os.path.join(C.VERIF, 'tools'))
    import tr_ncx
    lib = C.libdir()
    exe = C.build_c(lib, [os.path.join(C.VERIF, 'harness', 'c09_conv.c')], 'c09_conv')
    pr = C.prove(ctx.pid, gens=('ncx',), lib=lib)
    proof_ok = ctx.add_proof(pr, 'tools/tr_ncx.py <lib> coq/Gen_ncx.v; make -C coq Properties_C09.vo (coqc 8.16.1, full .vo); '
                                 'coqc Properties_C09.v (Print Assumptions)')
    ctx.cov['trusted_base'] = list(C.TRUSTED_COMMON) + [
        'tools/tr_ncx.py (clang-14 AST of gen/ncx.i -> coq/Gen_ncx.v; exact constant evaluation in Python)',
        'harness/c09_conv.c, harness/c09_driver.ml (glue), coq/Extract_C09.v',
        'C semantics of casts and comparisons as written in coq/Convert.v (cconv, vcmp, rne, ftrunc)']
    table = tr_ncx.build_table(lib)
    unrec = [e for e in table if e['kind'] == 'BUnrec']
    ctx.cov['table'] = dict(functions=len(table), unrecognised=len(unrec),
                            unrecognised_names=[e['name'] + ': ' + e['why'][:120] for e in unrec][:12],
                            with_tests=sum(1 for e in table if e['tests']))
    try:
        drv = build_driver(lib)
    except C.BuildFailure as e:
        drv = None
        ctx.violation('the conversion model does not build (extraction): ' + str(e)[-600:], dict(relation='model-build'), no_input=True)
        return
    g = Gen(table, ctx.rng, ctx.tier)
    g.gen_api()
    g.gen_req_level()
    g.gen_leaf()
    work = C.scratch('c09.')
    t0 = time.time()
    iso_ids = {cid for cid, m in g.meta.items() if m.get('isolate')}
    normal = [c for c in g.cmds if c.split()[1] not in iso_ids]
    isolated = [c for c in g.cmds if c.split()[1] in iso_ids]
    res, problems = run_shards(exe, drv, normal, work)
    if isolated:
        res2, problems2 = run_shards(exe, drv, isolated, os.path.join(work, 'iso'), jobs=8, one_per_process=True)
        res.update(res2); problems += problems2
    ctx.cov['run_wall_s'] = round(time.time() - t0, 1)

    fail_oracle = {}       # key -> list of (meta, detail)
    fail_corr = []
    fail_internal = list(problems)
    n_elem = n_ub = n_nontrivial = 0
    byclass = {}
    for cid, m in g.meta.items():
        r = res.get(cid)
        if not r or r[0] is None or r[1] is None or r[2] is None:
            fail_internal.append('no result for %s: %s' % (cid, m['cmd'][:120]))
            continue
        impl, mod, spc = r
        if impl[0] == 'CRASH':
            ctx.count('%s %s flexible API, NC_%s with %s buffer: process died' % (m['api'], m['d'], (XT + ['CHAR'])[m['xi']], (IT + ['text'])[m['ii']]), nontrivial=True)
            fail_oracle.setdefault('echar:flexible-api:%s' % m['d'], []).append(
                (m, 'expected NC_ECHAR, the process died: exit %s %s' % (impl[1], impl[2][:200])))
            continue
        if impl[0] == 'HARNESS-ERROR':
            fail_internal.append('harness error %s: %s' % (' '.join(impl[:4]), m['cmd'][:120]))
            continue
        if m['api'] in ('nb', 'varn', 'mput'):
            try:
                judge_req_level(ctx, m, impl, mod, spc, fail_oracle, fail_corr, fail_internal)
            except (AssertionError, IndexError, ValueError) as e:
                fail_internal.append('unparsable request-level result (%r): %s | %s' % (e, m['cmd'][:100], ' '.join(impl[:12])))
            continue
        xi, ii, d = m['xi'], m['ii'], m['d']
        st_i = int(impl[0]); n_i = int(impl[1]); codes_i = [int(x) for x in impl[2:2 + n_i]]
        st_m = int(mod[0]); n_m = int(mod[1]); kinds_m = mod[2] if n_m else ''; codes_m = [int(x) for x in mod[3:3 + n_m]]
        st_s = int(spc[0]); n_s = int(spc[1]); kinds_s = spc[2] if n_s else ''; codes_s = [int(x) for x in spc[3:3 + n_s]]
        st_e, out_e, src = expected(m)
        S = ('Schar' if (xi == 10 or ii == 11) else (IC[ii] if d == 'put' else XC[xi]))
        D = ('Schar' if (xi == 10 or ii == 11) else (XC[xi] if d == 'put' else IC[ii]))
        nontrivial = (st_e == NC_ECHAR) or not same_repr(S, D)
        ctx.count('%s %s fmt=%s NC_%s<->%s %s n=%d values#%s' % (m['api'], d, m.get('fmt', '-'), (XT + ['CHAR'])[xi], (IT + ['text'])[ii], m['kind'], len(src),
                                                                 hashlib.sha1(m['cmd'].split(' ', 2)[2].encode()).hexdigest()[:10]),
                  nontrivial=nontrivial)
        # -- extracted Coq spec vs python oracle (internal consistency of the check)
        if st_e == NC_ECHAR:
            if st_s != NC_ECHAR:
                fail_internal.append('oracle/spec disagree on NC_ECHAR: ' + m['cmd'][:100])
        else:
            ok = (st_s == st_e and n_s == len(out_e))
            if ok:
                for j, (k, c) in enumerate(out_e):
                    ks = kinds_s[j]
                    if (k == 'ok') != (ks == '0') or (codes_s[j] != c and not (is_nan_code(D, c) and is_nan_code(D, codes_s[j]))):
                        ok = False; break
            if not ok:
                fail_internal.append('python oracle and extracted Coq spec disagree: %s | spec %s' % (m['cmd'][:160], ' '.join(spc[:12])))
        # -- ORACLE on the implementation's observation
        if st_e == NC_ECHAR:
            bad = (st_i != NC_ECHAR)
            if not bad and n_i:
                # nothing may have been transferred: destination still 0x5A bytes
                Dd = ('Schar' if xi == 10 else XC[xi]) if d == 'put' else ('Schar' if ii == 11 else IC[ii])
                sv = sentinel(Dd)
                def sgn(c, t):
                    if isflt(t): return c
                    b, s = BITS[t]
                    return c - (1 << b) if (s and c >= 1 << (b - 1)) else c
                if any(c != sgn(sv, Dd) for c in codes_i):
                    bad = True
            if bad:
                fail_oracle.setdefault('echar:%s:%s' % (m['api'], d), []).append((m, 'expected NC_ECHAR and nothing transferred, got status %d data %s' % (st_i, codes_i[:4])))
        else:
            if n_i != len(out_e):
                fail_internal.append('element count: ' + m['cmd'][:100]); continue
            bad_elems = []
            for j, (k, c) in enumerate(out_e):
                n_elem += 1
                ci = codes_i[j]
                if k == 'range' and m.get('nullfill') and m.get('nodefault') and d == 'put':
                    continue      # NULL fill pointer and no default in the code: what is stored is not specified (never reached through the API)
                if ci != c and not (is_nan_code(D, c) and is_nan_code(D, ci)):
                    bad_elems.append(j)
            st_bad = (st_i != st_e)
            if bad_elems or st_bad:
                # group by the class of the first offending source value
                js = bad_elems or [j for j, (k, _) in enumerate(out_e) if k == 'range'] or [0]
                for j in js[:3]:
                    vc = value_class(S, src[j])
                    sname = ('NC_' + XT[xi]) if d == 'get' else IT[ii]
                    dname = IT[ii] if d == 'get' else ('NC_' + XT[xi])
                    if m['api'] == 'att' and ii == 6 and d == 'get' and out_e[j][0] == 'range' and codes_i[j] == FILL['Longlong']:
                        key = 'get_att:long:fill'          # ncmpi_get_att_long uses the long long functions: NC_FILL_INT64, not NC_FILL_INT
                    elif vc == 'NaN' and not isflt(D):
                        key = '%s:%s->integer:NaN' % (d, sname)
                    else:
                        key = '%s:%s->%s:%s' % (d, sname, dname, vc)
                    fail_oracle.setdefault(key, []).append((m, 'element %d source code %d: expected %s status %d, implementation stored %d status %d'
                                                            % (j, src[j], out_e[j], st_e, codes_i[j], st_i)))
        # -- MODEL vs implementation
        if st_e != NC_ECHAR or True:
            mm = None
            if n_m == 0:
                if st_m != st_i: mm = 'status model %d impl %d' % (st_m, st_i)
            elif n_m != n_i:
                mm = 'element count model %d impl %d' % (n_m, n_i)
            else:
                has_ub = '3' in kinds_m
                n_ub += kinds_m.count('3')
                if not has_ub and st_m != st_i:
                    mm = 'status model %d impl %d' % (st_m, st_i)
                for j in range(n_m):
                    k = kinds_m[j]
                    if k == '3': continue
                    if k == '4': mm = 'model has no semantics (unrecognised function)'; break
                    if k == '2':
                        want = sentinel(D)
                        b, s = (BITS[D] if not isflt(D) else (0, 0))
                        if not isflt(D) and s and want >= 1 << (b - 1): want -= 1 << b
                    else:
                        want = codes_m[j]
                    if codes_i[j] != want and not (is_nan_code(D, want) and is_nan_code(D, codes_i[j])):
                        mm = 'element %d (source %d): model %s:%d impl %d' % (j, src[j], k, want, codes_i[j]); break
            if mm:
                fail_corr.append((m, mm))
        if m['api'] == 'leaf' or True:
            byclass[m['api'] + ':' + m['kind']] = byclass.get(m['api'] + ':' + m['kind'], 0) + len(src)

    g.dist['elements'] = n_elem
    g.dist['elements_by_case_kind'] = byclass
    g.dist['model_undefined_elements'] = n_ub
    g.dist['dictionary_sizes'] = dict(min=min(len(v) for v in g.dicts.values()), max=max(len(v) for v in g.dicts.values()),
                                     total=sum(len(v) for v in g.dicts.values()))
    ctx.cov['distribution'] = g.dist
    ctx.cov['rule'] = ('all 10 numeric external x 11 numeric memory types (+ NC_CHAR/text: 12x11 incl. NC_ECHAR cases), both directions, '
                       'through put/get_var (typed collective/independent, vara, flexible), put/get_att and the element-wise functions '
                       '(padding variants, NULL fill pointer); source values = dictionary generated from the constants of the translated table '
                       '(every bound of both types and every test constant, +-1/2, +-1, adjacent floats, 0, -0, powers of two, NaN variants, +-Inf, '
                       'denormals, FLT_MAX rounding boundary, non-representable integers) + seeded random; calls: all-in-range, one offender at '
                       'first/middle/last, mixed; variable fill value present/absent; CDF-2 and CDF-5; 2^8 (quick) / 2^16 (thorough) sweeps. '
                       'Request level: batches of k = 2..6 iget / iput / bput requests (own variable each, posting order and wait order permuted) completed by ONE '
                       'wait_all or ONE independent wait with statuses[], offending requests none/first/middle/last/several/all, mixed with in-range requests; '
                       'blocking put_varn and mput_var (collective and independent) with one offender. non-trivial = a converting pair, an NC_ECHAR case or a request-level case')

    # ---- verdicts
    for key in sorted(fail_oracle):
        lst = fail_oracle[key]
        m, detail = lst[0]
        ctx.violation('C09 violated by the implementation [%s]: %s (%d observations)' % (key, detail, len(lst)),
                      dict(cmd=m['cmd'], api=m['api'], detail=detail, observations=len(lst),
                           more=[x[1] for x in lst[1:4]]), key=key)
    if fail_corr:
        # model and implementation disagree: if the oracle also failed on that input it has been reported above
        only = [(m, mm) for (m, mm) in fail_corr if not any(m is mo for l in fail_oracle.values() for (mo, _) in l)]
        if only:
            m, mm = only[0]
            ctx.violation('corr_C09_conv: the model (interpreter of the translated table) and the library disagree while the '
                          'specification oracle passes: %s (%d cases)' % (mm, len(only)),
                          dict(cmd=m['cmd'], detail=mm, relation='corr_C09_conv'), no_input=True)
    if fail_internal:
        ctx.violation('check-internal inconsistency: %s (%d)' % (fail_internal[0][:400], len(fail_internal)),
                      dict(relation='check-internal', detail=fail_internal[:5]), no_input=True)
    if not proof_ok:
        # the boundary dictionary above IS the failing-input search (it is generated from the changed table)
        if not fail_oracle:
            ctx.violation('proof obligations of C09 no longer check (%s) and the boundary search found no failing input'
                          % ', '.join(pr['failed'][:4]), dict(relation='proof', failed=pr['failed'][:8], log=pr['log'][-1500:]), no_input=True)
        else:
            print('C09: proof broken (%s); failing inputs reported above' % ', '.join(pr['failed'][:4]))
    if unrec and proof_ok:
        ctx.violation('translator: %d functions not understood but the proof still checks' % len(unrec),
                      dict(relation='translator', names=[e['name'] for e in unrec][:10]), no_input=True)


def replay(ctx, d):
    """re-run one stored command on the current library and print implementation / model / spec lines"""
    lib = C.libdir()
    exe = C.build_c(lib, [os.path.join(C.VERIF, 'harness', 'c09_conv.c')], 'c09_conv')
    C.prove(ctx.pid, gens=('ncx',), lib=lib)
    drv = build_driver(lib)
    work = C.scratch('c09r.')
    cmd = d.get('cmd')
    if not cmd:
        print('replay: no command stored (%s)' % d.get('relation')); return 1
    res, problems = run_shards(exe, drv, [cmd], work, jobs=1, one_per_process=True)
    def strip_kinds(t, k):
        """remove the kinds token(s) of a model/spec line so that it can be compared with the implementation line"""
        t = list(t)
        if k == 'N':
            out = t[:2]; i = 2
            while i < len(t) and t[i] == 'R':
                n = int(t[i + 3]); out += t[i:i + 4] + t[i + 5:i + 5 + n]; i += 5 + n
            return out
        if k in ('W', 'M'):
            return t[:4] + t[5:]
        return t[:2] + t[3:]
    for cid, (a, b, c) in res.items():
        print('implementation:', ' '.join(a or [])[:900])
        print('model         :', ' '.join(b or [])[:900])
        print('specification :', ' '.join(c or [])[:900])
        k = cmd.split()[0]
        ai = [x for x in (a or []) if True]
        if k == 'N' and 'C' in ai: ai = ai[:ai.index('C')]
        cs = strip_kinds(c or [], k)
        if k == 'N' and 'C' in cs: cs = cs[:cs.index('C')]
        if a and c and (a[0] == 'CRASH' or ai != cs):
            print('VIOLATION property=C09 replay reproduced')
            return 1
    return 0
