"""C11  I/O failures are never silently dropped.

PROVED (coq/Properties_C11.v, about the model coq/Fault.v instantiated with coq/Gen_iosites.v, which
tools/tr_iosites.py regenerates on every run from the C sources as built via clang's AST):
for every MPI_File_read*/write* call site of the library and every MPI error class, what the
enclosing function returns when that call fails (continuation of the function sliced to its `int`
locals, evaluated by an abstract interpreter; loops closed by a checked fixpoint), and whether every
caller on every static call path up to the public ncmpi_* entry points passes a callee's error on.
Sites/links where the current code loses the error are stated as *_refuted (witness class / link) with
the *_partial statement of what IS propagated; mpi2nc is tied to ncmpii_error_mpi2nc's source.

TIE (every run): (a) the translator is re-run, the generated definitions are re-checked by the proofs;
(b) fault-injection correspondence: harness/c11_fault.c (driver programs + PMPI interposition in one
binary) first runs each program unfaulted and records, per rank, every data-transfer MPI-IO call with
its call stack (return addresses -> addr2line -> generated site / link ids); then for every
(rank, call position, error class[, real call performed or suppressed]) it re-runs the program with the
shim returning that class from that call and records the return code of the enclosing ncmpi_* call on
the faulted rank and whether all ranks come back from that call (watchdog).
Model prediction (Fault.predict_all on the observed stack) must contain the observed return code.
ORACLE (property, on the implementation's own observations): the faulted rank's API call -- or a
request status delivered by the completing wait -- is non-zero, and no rank stays blocked in the call
(per-API-call watchdog inside the harness, a hang must repeat with three times the patience).

Violation keys: `site:<file>:<function>:<MPI call>[#n]:class=<C>` (error lost in the function that issues the
call), `link:<file>:<caller>:<callee>[#n]:class=<C>` (lost by a caller on the way up: first level at which the
model predicts a non-error), `blocked:[faulted-rank:]site:...`, `crash:site:...`.
After a change of /repo that alters the behaviour of a site (e.g. a `fix:` commit) the static per-site lemmas
must be regenerated: `python3 -m checks.C11 --regen` (rewrites part 2 of coq/Proofs_Fault.v,
coq/props/C11.spec, coq/Properties_C11.v from the model's current verdicts; part 1's bad_link_ids by hand).
"""
import os, sys, re, json, time, threading
from concurrent.futures import ThreadPoolExecutor
from pnc import common as C

LEVEL = 'proof'
ASSUMPTIONS = [
    'model = abstract interpretation of the continuation of each call, sliced to the int locals of the enclosing '
    'function (tools/tr_iosites.py); conditions over other state are nondeterministic; exactly one MPI call fails',
    'an int local compared with NC_NOERR holds a netCDF status, and statuses are never positive '
    '(Fault.refine_ne0; all NC_E* constants that occur are negative: nc_codes_negative)',
    'call graph = direct calls + calls through the ncmpio driver table (other drivers are not part of this build); '
    'a caller is modelled with "callee returned some error code", independent of which one',
    'MPI semantics modelled: MPI_Allreduce(MIN) of a negative status is negative on every rank; MPI_Bcast from '
    'rank 0 leaves the root\'s buffer unchanged; the shim\'s error codes are the class values (MPI_Error_class is the identity on them)',
    'blocked ranks are detected by observation only (watchdog); the model does not predict blocking',
]

CHECKER_CMD = ('python3 tools/tr_iosites.py <lib> coq/Gen_iosites.v && coq_makefile -f _CoqProject -o Makefile && '
               'make -k -j16 Properties_C11.vo && coqc -Q . Pnc Properties_C11.v (Print Assumptions)')

MU = {'PNETCDF_VERIF_MOVE_UNIT': '16'}
SAFE = {'PNETCDF_SAFE_MODE': '1'}
HCOLL = {'C11_HCOLL': '1'}
CHUNK = {'PNETCDF_VERIF_HDR_CHUNK': '96'}


def _m(*ds):
    r = {}
    for d in ds:
        r.update(d)
    return r


# (scenario, nprocs, environment)
CONFIGS = [
    ('create', 1, {}), ('create', 2, {}), ('create', 2, SAFE), ('create', 2, HCOLL), ('create', 2, _m(HCOLL, SAFE)),
    ('putrec', 1, {}), ('putrec', 2, {}), ('putrec', 2, HCOLL),
    ('redef1', 1, MU), ('redef1', 2, MU), ('redef1', 2, _m(MU, SAFE)), ('redef2', 1, MU), ('redef2', 2, MU),
    # three records present: 3 = a record variable is added (records moved one at a time, last to first),
    # 4 = only the header grows (whole-section move); every call position inside ncmpi_enddef is faulted
    ('redef3', 1, {}), ('redef3', 2, {}), ('redef4', 1, {}), ('redef4', 2, {}),
    ('fill', 1, {}), ('fill', 2, {}),
    ('rw', 1, {}), ('rw', 2, {}), ('zero', 2, {}),
    ('nb', 1, {}), ('nb', 2, {}),
    ('sync', 1, {}), ('sync', 2, {}), ('sync', 2, HCOLL),
    ('open', 1, CHUNK), ('open', 2, CHUNK), ('open', 2, _m(CHUNK, SAFE)), ('open', 2, _m(CHUNK, HCOLL)),
    ('attr', 1, {}), ('attr', 2, {}), ('attr', 2, SAFE), ('attr', 2, HCOLL),
]

# harness class name -> constructor of Fault.errclass
CLASSES_QUICK = ['IO', 'NO_SPACE']
# programs in which EVERY data-transfer call position inside the named API is faulted, also in the quick tier
# (a loss may depend on which of several moves fails, not only on the call stack), with these classes
EVERY_POSITION = {'redef3': 'ncmpi_enddef', 'redef4': 'ncmpi_enddef'}
CLASSES_EVERY = ['IO', 'NO_SPACE', 'QUOTA']
CLASSES_THOROUGH = ['IO', 'NO_SPACE', 'QUOTA', 'ACCESS', 'READ_ONLY', 'FILE', 'BAD_FILE', 'OTHER', 'AMODE',
                    'NOT_SAME', 'NO_SUCH_FILE', 'FILE_EXISTS', 'UNKNOWN', 'INTERN', 'TRUNCATE', 'NEWCLASS']


def coq_class(c):
    return 'E_ANY_OTHER_CLASS' if c == 'NEWCLASS' else 'E_' + c


HARNESS_FLAGS = ['-no-pie', '-fno-pie', '-O0']


def cfg_tag(cfg):
    sc, np_, env = cfg
    return '%s-np%d%s' % (sc, np_, ''.join('-%s=%s' % (k.replace('PNETCDF_VERIF_', '').replace('PNETCDF_', '').replace('C11_', ''), v)
                                             for k, v in sorted(env.items())))


# ------------------------------------------------------------------ running the harness
class Run:
    pass


def parse_log(path):
    r = dict(io=[], api={}, sync={}, done=False, bail=None, masked={}, injected=None, hang_cleanup=False, hang=None)
    if not os.path.exists(path):
        return r
    for l in open(path, errors='replace'):
        t = l.split()
        if not t:
            continue
        if t[0] == 'IO' and len(t) >= 6:
            r['io'].append(dict(idx=int(t[1]), seq=int(t[2]), fn=t[3], bytes=int(t[4]), hit=int(t[5]),
                                addrs=[int(x, 16) for x in t[6:] if x.startswith('0x')]))
        elif t[0] == 'API':
            # name may contain spaces inside parentheses: API <seq> <name...> <ret> [statuses]
            m = re.match(r'API (\d+) (.*?) (-?\d+)((?: -?\d+)*)\s*$', l)
            if m:
                r['api'][int(m.group(1))] = (m.group(2), int(m.group(3)), [int(x) for x in m.group(4).split()])
        elif t[0] == 'SYNC':
            r['sync'][int(t[1])] = int(t[2])
        elif t[0] == 'MASKED':
            r['masked'][int(t[1])] = int(t[2])
        elif t[0] == 'BAIL':
            r['bail'] = int(t[1])
        elif t[0] == 'INJECTED':
            r['injected'] = int(t[1])
        elif t[0] == 'HANG':
            r['hang'] = int(t[1])
        elif t[0] == 'CLEANUP-HANG':
            r['hang_cleanup'] = True
        elif t[0] == 'DONE':
            r['done'] = True
    return r


def run_harness(exe, wd, cfg, fault=None, timeout=25):
    """fault = dict(rank, index, cls, perform) or None (census)"""
    sc, np_, env = cfg
    tag = cfg_tag(cfg) + ('' if fault is None else '-r%d-i%d-%s-p%d' % (fault['rank'], fault['index'], fault['cls'], fault['perform']))
    tag = re.sub(r'[^A-Za-z0-9_.=-]', '_', tag)
    logp = os.path.join(wd, 'log-' + tag)
    ncf = os.path.join(wd, 'f-' + tag + '.nc')
    e = dict(env)
    if fault is not None:
        e.update(C11_INDEX=str(fault['index']), C11_RANK=str(fault['rank']), C11_CLASS=fault['cls'],
                 C11_PERFORM=str(fault['perform']))
    full = {k: v for k, v in os.environ.items() if not k.startswith(('C11_', 'PNETCDF_'))}
    full.update(e)
    t0 = time.time()
    if np_ == 1:
        rc, out = C.sh([exe, sc, logp, ncf], timeout=timeout, env=full)
    else:
        rc, out = C.sh(C.MPIEXEC + ['-n', str(np_), exe, sc, logp, ncf], timeout=timeout, env=full)
    r = Run()
    r.rc, r.out, r.wall, r.cfg, r.fault, r.tag = rc, out[-1500:], time.time() - t0, cfg, fault, tag
    r.logs = [parse_log('%s.%d' % (logp, k)) for k in range(np_)]
    for k in range(np_):
        try:
            os.remove('%s.%d' % (logp, k))
        except OSError:
            pass
    try:
        os.remove(ncf)
    except OSError:
        pass
    if rc == -9:
        C.sh('pkill -9 -f %s' % re.escape(logp), timeout=10)
    return r


def resolve(exe, addrs):
    """addr -> (function, file basename, line) for the call instruction preceding each return address"""
    addrs = sorted(set(addrs))
    if not addrs:
        return {}
    inp = '\n'.join('0x%x' % (a - 1) for a in addrs) + '\n'
    rc, out = C.sh(['addr2line', '-f', '-e', exe], inp=inp.encode(), timeout=120)
    ls = out.split('\n')
    res = {}
    for i, a in enumerate(addrs):
        fn = ls[2 * i].strip() if 2 * i < len(ls) else '??'
        fl = ls[2 * i + 1].strip() if 2 * i + 1 < len(ls) else '??:0'
        m = re.match(r'(.*):(\d+)', fl)
        f, line = (os.path.basename(m.group(1)), int(m.group(2))) if m else ('??', 0)
        res[a] = (fn, f, line)
    return res


class SiteIndex:
    def __init__(self, sites):
        self.sites = sites
        self.by = {}
        for s in sites:
            self.by.setdefault((s['file'], s['func']), []).append(s)
        self.byid = {s['id']: s for s in sites}

    def match(self, func, file, line, callee, want_io):
        """the generated site for a call in `func` (file:line) of `callee`"""
        c = [s for s in self.by.get((file, func), []) if bool(s['io']) == want_io and s['callee'] == callee]
        ex = [s for s in c if s['line'] <= line <= s['line_end']]
        if len(ex) == 1:
            return ex[0]
        st = [s for s in c if s['stmt_line'] <= line <= s['stmt_line_end']]
        if len(st) == 1:
            return st[0]
        if len(ex) > 1 or len(st) > 1:
            l = ex or st
            l.sort(key=lambda s: abs(s['line'] - line))
            return l[0]
        return None


def stack_ids(idx, sym, io):
    """ids of the I/O site and of the link sites above it, up to the ncmpi_* frame; None + reason if
    a frame cannot be matched with the translator's site list"""
    frames = [sym.get(a, ('??', '??', 0)) for a in io['addrs']]
    if not frames:
        return None, 'no frames'
    f0 = frames[0]
    s0 = idx.match(f0[0], f0[1], f0[2], io['fn'], True)
    if s0 is None:
        return None, 'I/O call %s at %s:%s:%d not in the generated site list' % (io['fn'], f0[1], f0[0], f0[2])
    ids = [s0['id']]
    lower = f0[0]
    for fr in frames[1:]:
        s = idx.match(fr[0], fr[1], fr[2], lower, False)
        if s is None:
            if fr[1].startswith('c11_fault') or fr[0] in ('main', '??'):
                return None, 'reached the harness frame %s without passing an ncmpi_* entry (stack %s)' % (fr[0], ids)
            return None, 'call of %s at %s:%s:%d not in the generated link list' % (lower, fr[1], fr[0], fr[2])
        ids.append(s['id'])
        lower = fr[0]
        if s['is_api']:
            return ids, None
    return None, 'no ncmpi_* frame found above %s' % ids


# ------------------------------------------------------------------ model predictions
TOK_RE = r'I-?\d+|E|A|F|V|B\([^)]*\)'


def tok_to_aval(t):
    if t.startswith('I'):
        return 'VInt (%s)' % t[1:]
    return {'E': 'VErr', 'A': 'VAny', 'F': 'VFail'}[t]


def coq_eval(wd, name, items):
    """items: list of Coq expressions of type list pred -> list of token lists (one coqc run per 300)"""
    res = []
    for b in range(0, len(items), 300):
        part = items[b:b + 300]
        v = ['From Coq Require Import ZArith String List.', 'From Pnc Require Import Gen_consts Fault Gen_iosites.',
             'Import ListNotations.', 'Open Scope string_scope.', 'Set Printing Width 1000000.',
             'Definition io_run (id : string) (c : errclass) : list pred :=',
             '  match find_site id io_sites with Some s => pdedup (map pred_of (run VFail (mpi2nc c) (s_body s)))',
             '  | None => [PBad "unknown I/O site"] end.',
             'Definition link_run (id : string) (v : aval) : list pred :=',
             '  match find_site id link_sites with Some s => pdedup (map pred_of (run v 0%Z (s_body s)))',
             '  | None => [PBad "unknown link site"] end.']
        for i, e in enumerate(part):
            v.append('Eval vm_compute in ("CASE %d " ++ String.concat "," (map pred_tok (%s))).' % (i, e))
        p = os.path.join(wd, '%s_%d.v' % (name, b // 300))
        open(p, 'w').write('\n'.join(v) + '\n')
        rc, out = C.sh(['coqc', '-Q', C.COQ, 'Pnc', '-w', '-all', p], timeout=1500, cwd=wd)
        if rc != 0:
            raise C.BuildFailure('model prediction file failed:\n' + out[-2000:])
        got = {int(m.group(1)): re.findall(TOK_RE, m.group(2)) for m in re.finditer(r'"CASE (\d+) ([^"]*)"', out.replace('\n', ' '))}
        if len(got) != len(part):
            raise C.BuildFailure('model prediction output incomplete:\n' + out[-1000:])
        res += [got[i] for i in range(len(part))]
    return res


def model_predict(wd, cases, sample=8):
    """cases: list of (stack ids, harness class) -> {(stack, class): [(level id, [tokens])]}.
    Fault.predict_all composes the levels; here the composition (flat_map + dedup, as in
    Fault.predict_levels) is done level by level over a table of the distinct
    (I/O site, class) and (link site, incoming value) evaluations, each computed by Coq once;
    a sample of complete stacks is cross-checked against Fault.predict_all itself."""
    uniq = sorted(set((tuple(s), c) for s, c in cases))
    if not uniq:
        return {}, []
    io_keys = sorted(set((st[0], c) for st, c in uniq))
    io_tab = dict(zip(io_keys, coq_eval(wd, 'Io', ['io_run "%s" %s' % (i, coq_class(c)) for i, c in io_keys])))
    link_tab = {}
    cur = {k: list(io_tab[(k[0][0], k[1])]) for k in uniq}
    levels = {k: [(k[0][0], cur[k])] for k in uniq}
    depth = max(len(st) for st, _ in uniq)
    for d in range(1, depth):
        need = sorted(set((st[d], t) for (st, c) in uniq if len(st) > d for t in cur[(st, c)]
                          if t[0] in 'IEAF' and (st[d], t) not in link_tab))
        if need:
            link_tab.update(zip(need, coq_eval(wd, 'L%d' % d, ['link_run "%s" (%s)' % (i, tok_to_aval(t)) for i, t in need])))
        for k in uniq:
            st, c = k
            if len(st) <= d:
                continue
            nxt = []
            for t in cur[k]:
                for o in (link_tab[(st[d], t)] if t[0] in 'IEAF' else [t]):
                    if o not in nxt:
                        nxt.append(o)
            cur[k] = nxt
            levels[k].append((st[d], nxt))
    # cross-check of the composition against Fault.predict_all on a sample
    step = max(1, len(uniq) // sample)
    samp = uniq[::step][:sample]
    whole = coq_eval(wd, 'Whole', ['snd (last (predict_all io_sites link_sites [%s] %s) ("", []))' % (
        '; '.join('"%s"' % x for x in st), coq_class(c)) for st, c in samp])
    bad = ['%s %s: predict_all %s, composed %s' % (st, c, sorted(w), sorted(levels[(st, c)][-1][1]))
           for (st, c), w in zip(samp, whole) if sorted(w) != sorted(levels[(st, c)][-1][1])]
    return levels, bad


def tok_allows(tok, val):
    if tok.startswith('I'):
        return int(tok[1:]) == val
    if tok == 'E':
        return val < 0
    if tok == 'A':
        return True
    if tok == 'F':
        return val != 0
    return False


def tok_is_err(tok):
    return (tok.startswith('I') and int(tok[1:]) != 0) or tok in ('E', 'F')


# ------------------------------------------------------------------ the check
def site_key(site_id, cls):
    return 'site:%s:class=%s' % (site_id, cls)


def run(ctx):
    t_start = time.time()
    lib = C.libdir()
    exe = C.build_c(lib, [os.path.join(C.VERIF, 'harness', 'c11_fault.c')], 'c11_fault', extra=HARNESS_FLAGS)
    wd = C.scratch('c11.')
    ctx.cov['trusted_base'] = list(C.TRUSTED_COMMON) + [
        'clang -ast-dump=json (front end only) and tools/tr_iosites.py (slicing of continuations, call graph, '
        'textual census cross-check of the AST walk)',
        'harness/c11_fault.c: PMPI interposition, glibc backtrace(), addr2line on the -g non-PIE binary',
    ]
    quick = ctx.tier != 'thorough'
    classes = CLASSES_QUICK if quick else CLASSES_THOROUGH
    jobs = 8

    # ---------------- proofs in the background: translator (which also writes the site list used for the
    # stack matching, through C11_SITES_JSON) + coq; census and fault injection meanwhile
    sites_json = os.path.join(wd, 'sites.json')
    os.environ['C11_SITES_JSON'] = sites_json
    box = {}

    def prover():
        try:
            box['pr'] = C.prove(ctx.pid, gens=('consts', 'iosites'), lib=lib)
        except Exception as e:     # reported below
            box['err'] = e
    th = threading.Thread(target=prover)
    th.start()

    # ---------------- census
    with ThreadPoolExecutor(max_workers=jobs) as ex:
        census = list(ex.map(lambda cfg: run_harness(exe, wd, cfg, timeout=300), CONFIGS))
    # watchdog of the faulted runs: relative to what the unfaulted program needs on this machine now
    base_wall = {i: r.wall for i, r in enumerate(census)}
    while not os.path.exists(sites_json):       # written by the translator run of the proof thread
        if not th.is_alive():
            break
        time.sleep(0.5)
    if not os.path.exists(sites_json):
        th.join()
        raise box.get('err') or C.BuildFailure('translator tr_iosites did not write the site list')
    tj = json.load(open(sites_json))
    idx = SiteIndex(tj['sites'])
    problems = ['translator: ' + x for x in tj.get('problems', [])]
    for r in census:
        if r.rc != 0 or not all(l['done'] for l in r.logs) or any(v[1] != 0 for l in r.logs for v in l['api'].values()):
            problems.append('census run %s: rc=%s %s' % (r.tag, r.rc, r.out[-300:]))
    sym = resolve(exe, [a for r in census for l in r.logs for io in l['io'] for a in io['addrs']])

    # positions: (cfg index, rank, io index) -> stack
    positions = []
    unmatched = []
    for ci, r in enumerate(census):
        for rank, l in enumerate(r.logs):
            for io in l['io']:
                ids, why = stack_ids(idx, sym, io)
                api = l['api'].get(io['seq'], ('?', 0, []))[0]
                if ids is None:
                    unmatched.append('%s rank %d call %d: %s' % (r.tag, rank, io['idx'], why))
                    continue
                positions.append(dict(ci=ci, rank=rank, index=io['idx'], fn=io['fn'], bytes=io['bytes'], seq=io['seq'],
                                      api=api, stack=ids, addrs=io['addrs'],
                                      collective=io['fn'].endswith('_all')))
    reached = sorted(set(p['stack'][0] for p in positions))
    all_io = sorted(s['id'] for s in tj['sites'] if s['io'])
    not_exercised = [s for s in all_io if s not in reached]
    reached_links = sorted(set(x for p in positions for x in p['stack'][1:]))

    # ---------------- injection plan
    plan = []
    seen = set()
    percap = {}
    for p in positions:
        rep = (CONFIGS[p['ci']][1], 'PNETCDF_SAFE_MODE' in CONFIGS[p['ci']][2], p['rank'] == 0,
               tuple(p['stack']), p['api'], p['bytes'] == 0)
        first = rep not in seen
        seen.add(rep)
        every = EVERY_POSITION.get(CONFIGS[p['ci']][0]) == p['api']
        if quick and first and not every:
            # quick: at most 3 call stacks per (I/O site, nprocs, safe mode, root/non-root, API); the other
            # stacks of the same site (e.g. the header parser's many callers of hdr_fetch) keep their
            # 1-rank representatives and are all covered by the thorough tier
            grp = (p['stack'][0], rep[0], rep[1], rep[2], p['api'])
            percap[grp] = percap.get(grp, 0) + 1
            if percap[grp] > 3 and rep[0] > 1:
                continue
        cls_list = list(classes) + ([c for c in CLASSES_EVERY if c not in classes] if every else [])
        for c in cls_list:
            base = c in CLASSES_QUICK
            # quick: one position per distinct (nprocs, safe mode, root/non-root, call stack, API, zero-length)
            # thorough: every position for the two base classes, the representatives for the other classes
            # EVERY_POSITION programs: every position inside the named API with CLASSES_EVERY, in both tiers
            if not ((every and c in CLASSES_EVERY) or (first if (quick or not base) else True)):
                continue
            performs = [1] if p['collective'] else ([1, 0] if (c == 'NO_SPACE' or (not quick and base)) else [1])
            for pf in performs:
                plan.append((p, dict(rank=p['rank'], index=p['index'], cls=c, perform=pf)))

    def inject(it):
        p, f = it
        # per-API-call watchdog inside the harness (independent of MPI start-up time), relative to what
        # the whole unfaulted program needs on this machine now; the outer timeout is only a backstop
        alarm = int(max(4, 3 * base_wall[p['ci']]))
        cfg = CONFIGS[p['ci']]
        r = run_harness(exe, wd, (cfg[0], cfg[1], _m(cfg[2], {'C11_API_ALARM': str(alarm)})), f,
                        timeout=60 + 20 * alarm)
        if r.rc == -9 or any(l['hang'] is not None for l in r.logs):
            # a hang is an observation only if it is still one with three times the patience
            r2 = run_harness(exe, wd, (cfg[0], cfg[1], _m(cfg[2], {'C11_API_ALARM': str(3 * alarm)})), f,
                             timeout=60 + 60 * alarm)
            r2.first_hang = True
            return r2
        return r
    with ThreadPoolExecutor(max_workers=jobs) as ex:
        results = list(ex.map(inject, plan))

    th.join()
    if 'err' in box:
        raise box['err']
    pr = box['pr']
    proof_ok = ctx.add_proof(pr, CHECKER_CMD)

    # ---------------- model predictions for the observed stacks
    # (also when a proof broke: the model files may still build, and the predictions locate the loss)
    try:
        preds, comp_bad = model_predict(wd, [(p['stack'], f['cls']) for p, f in plan])
    except C.BuildFailure as e:
        if pr['ok']:
            raise
        preds, comp_bad = {}, []
    for cb in comp_bad[:2]:
        problems.append('composition of the level predictions differs from Fault.predict_all: ' + cb)

    # ---------------- evaluate
    stats = dict(census_runs=len(census), positions=len(positions), injections=len(plan), oracle_pass=0, dropped=0,
                 blocked=0, later_hang=0, hang_not_confirmed=0, masked_by_argument_error=0, prediction_checked=0, prediction_mismatch=0,
                 prediction_singleton=0, not_injected=0, inconclusive_timeout=0, crashed=0, per_class={}, per_scenario={}, nprocs={})
    table = {}        # (io site id, class) -> dict(obs=set, model=...)
    viol = {}         # key -> (what, replay)
    corr_fail = []
    later = []
    for (p, f), r in zip(plan, results):
        cfg = CONFIGS[p['ci']]
        case = dict(scenario=cfg[0], np=cfg[1], env=cfg[2], rank=f['rank'], index=f['index'], cls=f['cls'],
                    perform=f['perform'], mpi_call=p['fn'], api=p['api'], stack=p['stack'])
        lf = r.logs[f['rank']]
        if getattr(r, 'first_hang', False) and r.rc != -9 and not any(l['hang'] is not None for l in r.logs):
            stats['hang_not_confirmed'] += 1
        stats['per_class'][f['cls']] = stats['per_class'].get(f['cls'], 0) + 1
        stats['per_scenario'][cfg[0]] = stats['per_scenario'].get(cfg[0], 0) + 1
        stats['nprocs'][str(cfg[1])] = stats['nprocs'].get(str(cfg[1]), 0) + 1
        hit = [io for io in lf['io'] if io['hit']]
        n_own = len(p['stack']) + 1           # frames inside the binary (library + harness caller); libc frames move (ASLR)
        if not hit and (r.rc == -9 or any(l['hang'] is not None for l in r.logs)):
            # the watchdog fired before the program reached the call (machine overloaded): no observation
            stats['inconclusive_timeout'] += 1
            ctx.count(json.dumps(case, sort_keys=True), nontrivial=False)
            continue
        if not hit or hit[0]['addrs'][:n_own] != p['addrs'][:n_own] or hit[0]['idx'] != f['index']:
            stats['not_injected'] += 1
            corr_fail.append(('corr_C11_census_stable: the faulted run did not reach call %d of rank %d with the '
                              'census stack' % (f['index'], f['rank']), case, r))
            ctx.count(json.dumps(case, sort_keys=True), nontrivial=False)
            continue
        seq = hit[0]['seq']
        ctx.count(json.dumps(case, sort_keys=True), nontrivial=True)
        key0 = (p['stack'][0], f['cls'])
        t = table.setdefault(key0, dict(obs=set(), apis=set(), model_site=None, model_api=set()))
        t['apis'].add(p['api'])
        # --- termination: who came back from API call `seq`
        returned = [k for k, l in enumerate(r.logs) if seq in l['api']]
        hung = (r.rc == -9) or any(l['hang'] is not None for l in r.logs)
        if f['rank'] not in returned and not hung:
            stats['crashed'] += 1
            t['obs'].add('CRASH')
            key = 'crash:' + site_key(p['stack'][0], f['cls'])
            viol.setdefault(key, ('the program dies inside %s after %s fails with MPI_ERR_%s (exit status %s)' % (p['api'], p['fn'], f['cls'], r.rc),
                                  dict(case, observed='crash', rc=r.rc, out=r.out[-800:])))
            continue
        if f['rank'] not in returned:
            stats['blocked'] += 1
            t['obs'].add('BLOCKED(faulted rank)')
            key = 'blocked:faulted-rank:' + site_key(p['stack'][0], f['cls'])
            viol.setdefault(key, ('the faulted rank never returns from %s after %s fails with MPI_ERR_%s (ranks that returned: %s)' % (
                p['api'], p['fn'], f['cls'], returned), dict(case, observed='watchdog', returned=returned, rc=r.rc)))
            continue
        if len(returned) < cfg[1] and hung:
            stats['blocked'] += 1
            t['obs'].add('BLOCKED(other ranks)')
            key = 'blocked:' + site_key(p['stack'][0], f['cls'])
            viol.setdefault(key, ('rank(s) %s stay blocked in %s while faulted rank %d returned %d (%s failed with MPI_ERR_%s)' % (
                [k for k in range(cfg[1]) if k not in returned], p['api'], f['rank'], lf['api'][seq][1], p['fn'], f['cls']),
                dict(case, observed=dict(returned=returned, ret=lf['api'][seq][1]), rc=r.rc)))
            # the return code of the faulted rank is still evaluated below
        elif hung or not all(l['done'] for l in r.logs):
            stats['later_hang'] += 1
            later.append(dict(case, api_return=lf['api'][seq][1],
                              hang_in_call=[l['hang'] for l in r.logs], rc=r.rc))
        name, ret, sts = lf['api'][seq]
        raw = lf['masked'].get(seq, ret)
        t['obs'].add(raw)
        errish = raw != 0 or any(s != 0 for s in sts)
        if seq in lf['masked']:
            stats['masked_by_argument_error'] += 1
        # --- model prediction
        lv = preds.get((tuple(p['stack']), f['cls']))
        culprit = p['stack'][0]
        model_err = None
        if lv:
            stats['prediction_checked'] += 1
            t['model_site'] = lv[0][1]
            t['model_api'] |= set(lv[-1][1])
            toks = lv[-1][1]
            model_err = all(tok_is_err(x) for x in toks) and bool(toks)
            if len(toks) == 1 and toks[0].startswith('I'):
                stats['prediction_singleton'] += 1
            for k, tk in lv:             # first level at which the model loses the error
                if not all(tok_is_err(x) for x in tk):
                    culprit = k
                    break
            if not any(tok_allows(x, raw) for x in toks):
                stats['prediction_mismatch'] += 1
                corr_fail.append(('corr_C11_return_code: model predicts %s for %s, observed %d' % (toks, p['api'], raw), case, r))
        # --- oracle
        if errish:
            stats['oracle_pass'] += 1
        else:
            stats['dropped'] += 1
            kind = 'site' if culprit == p['stack'][0] else 'link'
            key = '%s:%s:class=%s' % (kind, culprit, f['cls'])
            viol.setdefault(key, ('%s returns NC_NOERR on rank %d although %s (%s) failed with MPI_ERR_%s; the error is lost at %s' % (
                p['api'], f['rank'], p['fn'], p['stack'][0], f['cls'], culprit),
                dict(case, observed=dict(ret=raw, statuses=sts), model=[(k, tk) for k, tk in (lv or [])])))

    # ---------------- verdicts
    for key in sorted(viol):
        what, rep = viol[key]
        ctx.violation(what, rep, key=key)
    unknown_viol = [k for k in viol if not ctx.is_known(k)]
    for what, case, r in corr_fail[:3]:
        ctx.violation(what, dict(case, relation=what.split(':')[0], rc=r.rc, out=r.out[-500:]), no_input=True)
    for u in unmatched[:3]:
        ctx.violation('corr_C11_stack: ' + u, dict(relation='corr_C11_stack', detail=u), no_input=True)
    for pb in problems[:3]:
        ctx.violation('corr_C11_census: ' + pb, dict(relation='corr_C11_census', detail=pb), no_input=True)
    if not proof_ok:
        # a theorem no longer checks against the regenerated definitions: the injection runs above ARE the
        # failing-input search (every reached site x class); report the obligation if they found nothing new
        broken = []
        for x in pr['failed']:
            m = re.match(r'(\w+\.v):(\d+)$', x)
            if m and os.path.exists(os.path.join(C.COQ, m.group(1))):
                head = open(os.path.join(C.COQ, m.group(1))).read().split('\n')[:int(m.group(2))]
                nm = [re.match(r'\s*(?:Lemma|Theorem|Example)\s+(\S+)', l) for l in head]
                nm = [z.group(1) for z in nm if z]
                broken.append('%s (lemma %s)' % (x, nm[-1] if nm else '?'))
            else:
                broken.append(x)
        pr['failed'] = broken
        ctx.cov['proof_obligations_broken_at'] = broken
        if not unknown_viol:
            ctx.violation('proof obligations of Properties_C11.v do not check against the regenerated Gen_iosites.v: %s'
                          % ', '.join(pr['failed'][:4]),
                          dict(relation='proof', failed=pr['failed'], log=pr['log'][-3000:]), no_input=True)
        else:
            print('proof obligations broken (%s); failing inputs found by injection are reported above' % pr['failed'][:3])

    # ---------------- evidence
    rows = []
    for (sid, cls), t in sorted(table.items()):
        rows.append(dict(site=sid, cls=cls, apis=sorted(t['apis']), observed=sorted(str(x) for x in t['obs']),
                         model_function=t['model_site'], model_api=sorted(t['model_api'])))
    ctx.cov['rule'] = ('census of every data-transfer MPI-IO call of %d programs (scenario x nprocs x mode); case = (program, rank, '
                       'call position, error class, real call performed/suppressed); quick: one position per distinct '
                       '(program, root/non-root, call stack, API) and classes %s; thorough: every position, classes %s; '
                       'non-trivial = the fault was injected at the census stack and the API return was observed'
                       % (len(CONFIGS), CLASSES_QUICK, CLASSES_THOROUGH))
    ctx.cov['distribution'] = stats
    ctx.cov['io_sites_total'] = len(all_io)
    ctx.cov['io_sites_reached'] = reached
    ctx.cov['io_sites_not_exercised'] = not_exercised
    ctx.cov['link_sites_total'] = len(tj['sites']) - len(all_io)
    ctx.cov['link_sites_reached'] = len(reached_links)
    ctx.cov['site_class_table'] = rows
    ctx.cov['hang_in_a_later_call'] = later[:10]
    ctx.cov['violation_keys'] = sorted(viol)
    ctx.cov['traces_validated_against_impl'] = stats['prediction_checked']
    ctx.cov['translator'] = dict(io_sites=len(all_io), link_sites=len(tj['sites']) - len(all_io), problems=tj.get('problems', []))
    ctx.cov['wall_breakdown_s'] = dict(total=round(time.time() - t_start, 1), proof=round(pr['wall'], 1))


def replay(ctx, d):
    lib = C.libdir()
    exe = C.build_c(lib, [os.path.join(C.VERIF, 'harness', 'c11_fault.c')], 'c11_fault', extra=HARNESS_FLAGS)
    wd = C.scratch('c11r.')
    if 'scenario' not in d:
        print('nothing to replay (no failing input in this record):', d.get('what'))
        return 0
    cfg = (d['scenario'], d['np'], _m(d['env'], {'C11_API_ALARM': '8'}))
    r = run_harness(exe, wd, cfg, dict(rank=d['rank'], index=d['index'], cls=d['cls'], perform=d['perform']), timeout=30)
    for k, l in enumerate(r.logs):
        print('rank', k, 'done' if l['done'] else 'NOT DONE', ('HANG in call %d' % l['hang']) if l['hang'] is not None else '', 'api:', {s: v for s, v in sorted(l['api'].items())},
              'faulted call:', [io for io in l['io'] if io['hit']])
    lf = r.logs[d['rank']]
    hit = [io for io in lf['io'] if io['hit']]
    if not hit or hit[0]['seq'] not in lf['api']:
        print('VIOLATION reproduced: the faulted rank did not return' if hit else 'fault not reached')
        return 1 if hit else 0
    name, ret, sts = lf['api'][hit[0]['seq']]
    raw = lf['masked'].get(hit[0]['seq'], ret)
    bad = (raw == 0 and not any(sts)) or any(hit[0]['seq'] not in l['api'] for l in r.logs)
    print('%s returned %d statuses %s on rank %d -> %s' % (name, raw, sts, d['rank'], 'VIOLATION reproduced' if bad else 'error reported'))
    return 1 if bad else 0


# ------------------------------------------------------------------ regeneration of the per-site lemmas
PART2 = '(* ==== PART 2: per-site and per-chain lemmas (generated by `python3 -m checks.C11 --regen`) ==== *)'


def _ident(site_id):
    f, fn, callee = site_id.split(':')
    return re.sub(r'[^A-Za-z0-9_]', '_', '%s__%s' % (fn, callee.replace('#', '_')))


def regen(lib=None):
    """Rewrite part 2 of coq/Proofs_Fault.v, coq/props/C11.spec and coq/Properties_C11.v from the verdicts the
    model gives on the CURRENT sources.  To be run by hand after /repo changed the behaviour of a site
    (e.g. a `fix:` commit); never run by the check itself."""
    lib = lib or C.libdir()
    wd = C.scratch('c11g.')
    sj = os.path.join(wd, 'sites.json')
    rc, out = C.sh([sys.executable, os.path.join(C.VERIF, 'tools', 'tr_iosites.py'), lib,
                    os.path.join(C.COQ, 'Gen_iosites.v'), '--json', sj], timeout=600)
    print(out.strip())
    if rc != 0:
        raise SystemExit('translator failed')
    tj = json.load(open(sj))
    pf = os.path.join(C.COQ, 'Proofs_Fault.v')
    txt = open(pf).read()
    part1 = txt[:txt.index(PART2)]
    open(pf, 'w').write(part1 + PART2 + '\n')
    for f in ('Fault.v', 'Gen_iosites.v'):       # (part 1 may not check before bad_link_ids is updated)
        rc, out = C.sh(['coqc', '-Q', '.', 'Pnc', '-w', '-all', f], cwd=C.COQ, timeout=1500)
        if rc != 0:
            raise SystemExit('coqc %s failed:\n%s' % (f, out[-3000:]))
    io = [s for s in tj['sites'] if s['io']]
    links = [s for s in tj['sites'] if not s['io']]
    # ---- ask the model
    q = ['From Coq Require Import ZArith String List Bool.', 'From Pnc Require Import Gen_consts Fault Gen_iosites.',
         'Import ListNotations.', 'Open Scope string_scope.', 'Set Printing Width 1000000.',
         'Definition cls (s : site) := String.concat "," (map class_name (filter (fun c => negb (io_propagates s c)) all_classes)).',
         'Eval vm_compute in ("BAD " ++ String.concat "," (map s_id (filter (fun l => negb (link_propagates l)) link_sites))).']
    for i, s in enumerate(io):
        q.append('Eval vm_compute in ("SITE %d " ++ cls (site_of "%s" io_sites)).' % (i, s['id']))
    q.append('Eval vm_compute in ("CHAINS " ++ String.concat "," (map (fun x => fst x ++ "=" ++ (if chain_in_graph link_sites (snd x) then "ok" else "MISSING")) chains)).')
    open(os.path.join(wd, 'Q.v'), 'w').write('\n'.join(q) + '\n')
    rc, out = C.sh(['coqc', '-Q', C.COQ, 'Pnc', '-w', '-all', 'Q.v'], cwd=wd, timeout=1500)
    if rc != 0:
        raise SystemExit('query failed:\n' + out[-3000:])
    out1 = out.replace('\n', ' ')
    bad = [x for x in re.search(r'"BAD ([^"]*)"', out1).group(1).split(',') if x]
    dropped = {}
    for m in re.finditer(r'"SITE (\d+) ([^"]*)"', out1):
        dropped[io[int(m.group(1))]['id']] = [x for x in m.group(2).split(',') if x]
    chains = [x.split('=') for x in re.search(r'"CHAINS ([^"]*)"', out1).group(1).split(',')]
    cur_bad = re.findall(r'"([^"]+)"', re.search(r'Definition bad_link_ids : list string :=\s*\[(.*?)\]\.', part1, re.S).group(1))
    if sorted(bad) != sorted(cur_bad):
        print('NOTE: bad_link_ids in part 1 of Proofs_Fault.v was %s, the model now gives %s: list rewritten '
              '(update the comment above it by hand)' % (cur_bad, bad))
        part1 = re.sub(r'(Definition bad_link_ids : list string :=\s*\[)(.*?)(\]\.)',
                       lambda m: m.group(1) + ' ' + ';\n    '.join('"%s"' % b for b in sorted(bad)) + ' ' + m.group(3),
                       part1, count=1, flags=re.S)

    def ctor(n):
        return 'E_ANY_OTHER_CLASS' if n.startswith('(') else 'E_' + n[len('MPI_ERR_'):]
    # ---- call graph for explicit paths
    callers = {}
    for l in links:
        callers.setdefault(l['callee'], []).append(l)

    def path_to(f, target):
        """link ids from function f upward until reaching function `target`"""
        from collections import deque
        prev = {f: None}
        dq = deque([f])
        while dq:
            g = dq.popleft()
            if g == target:
                break
            for l in callers.get(g, []):
                if l['func'] not in prev:
                    prev[l['func']] = (g, l['id'])
                    dq.append(l['func'])
        if target not in prev:
            return None
        p = []
        g = target
        while prev[g] is not None:
            g0, lid = prev[g]
            p.append(lid)
            g = g0
        return list(reversed(p))

    def reach_up(f):
        seen = {f}
        todo = [f]
        while todo:
            g = todo.pop()
            for l in callers.get(g, []):
                if l['func'] not in seen:
                    seen.add(l['func']); todo.append(l['func'])
        return seen
    byid = {l['id']: l for l in links}
    o = [PART2, '']
    spec = ['# C11 I/O failures are never silently dropped.  Model: coq/Fault.v (policy language, abstract interpreter,',
            '# mpi2nc, propagation table) instantiated with coq/Gen_iosites.v (tools/tr_iosites.py, regenerated from the',
            '# sources as built on every run).  no_silent_drop s: for every MPI error class, the function containing I/O',
            '# site s returns an error and so does every function on every static call path above it, up to the ncmpi_ entry points.',
            '# xxx_refuted: the present code loses the error (witness class or losing link site); xxx_drops: exactly which',
            '# classes are lost in the function; xxx_partial: what is propagated nevertheless.',
            'import Proofs_Fault',
            'thm C11_all_classes_enumerated all_classes_complete',
            'thm C11_mpi2nc_matches_source mpi2nc_matches_source',
            'thm C11_mpi2nc_table_classes_known mpi2nc_table_classes_known',
            'thm C11_mpi2nc_default_is_EFILE mpi2nc_default_is_EFILE',
            'thm C11_mpi2nc_never_noerr mpi2nc_never_noerr',
            'thm C11_nc_codes_negative nc_codes_negative',
            'thm C11_translator_census_complete translator_census_complete',
            'thm C11_loop_exec_covers_all_iterations loop_exec_covers_all_iterations',
            'thm C11_loop_exec_fails_closed loop_exec_fails_closed',
            'thm C11_verdict_is_specification propagates_spec',
            'thm C11_call_paths_stay_in_closed_set up_closed_sound',
            'thm C11_links_propagate_except_bad links_propagate_except_bad',
            'thm C11_bad_links_drop bad_links_drop',
            'thm C11_hypothesis_satisfiable mpi2nc_hypothesis_satisfiable',
            'thm C11_on_path_inhabited on_path_inhabited']
    verdict = {}
    # one closure certificate per function that contains an I/O site
    for f in sorted(set(s['func'] for s in io)):
        fid = re.sub(r'[^A-Za-z0-9_]', '_', f)
        o.append('Lemma up_closed_%s : up_closed link_sites "%s" (up_set "%s") = true.' % (fid, f, f))
        o.append('Proof. by_vm. Qed.')
        if not any(byid[b]['callee'] in reach_up(f) for b in bad):
            o.append('Lemma no_bad_link_above_%s :' % fid)
            o.append('  forallb (fun l => negb (str_mem (s_callee l) (up_set "%s")) || negb (str_mem (s_id l) bad_link_ids)) link_sites = true.' % f)
            o.append('Proof. by_vm. Qed.')
        o.append('')
    for s in io:
        sid = s['id']
        nm = _ident(sid)
        S = '(site_of "%s" io_sites)' % sid
        D = [ctor(x) for x in dropped.get(sid, [])]
        up = reach_up(s['func'])
        badup = [b for b in bad if byid[b]['callee'] in up]
        verdict[sid] = dict(dropped=dropped.get(sid, []), bad_links_above=badup)
        if not D and not badup:
            o.append('Lemma nsd_%s : no_silent_drop link_sites %s.' % (nm, S))
            fid = re.sub(r'[^A-Za-z0-9_]', '_', s['func'])
            o.append('Proof.\n  apply (no_silent_drop_intro %s (up_set "%s")); [by_vm | exact up_closed_%s | exact no_bad_link_above_%s].\nQed.\n' % (S, s['func'], fid, fid))
            spec.append('thm no_silent_drop_%s nsd_%s' % (nm, nm))
            continue
        o.append('Lemma nsd_%s_refuted : ~ no_silent_drop link_sites %s.' % (nm, S))
        if D:
            w = 'E_NO_SPACE' if 'E_NO_SPACE' in D else D[0]
            o.append('Proof. apply (refute_by_class %s %s). by_vm. Qed.\n' % (S, w))
        else:
            b = badup[0]
            p = path_to(s['func'], byid[b]['callee'])
            o.append('Proof.\n  apply (refute_by_link %s (sites_of [%s] link_sites) (site_of "%s" link_sites)).' % (
                S, '; '.join('"%s"' % x for x in p), b))
            o.append('  - apply site_of_In; by_vm.\n  - by_vm.\n  - by_vm.')
            o.append('  - apply sites_of_In; by_vm.\nQed.\n')
        conj_l = ['nsd_%s_refuted' % nm]
        conj_t = ['~ no_silent_drop link_sites %s' % S]
        if D:
            o.append('Lemma nsd_%s_drops : drops_classes %s [%s].' % (nm, S, '; '.join(D)))
            o.append('Proof. apply drops_classes_intro; by_vm. Qed.\n')
            conj_l.append('nsd_%s_drops' % nm)
            conj_t.append('drops_classes %s [%s]' % (S, '; '.join(D)))
        if badup:
            o.append('Lemma nsd_%s_partial : no_silent_drop_except link_sites %s [%s] bad_link_ids.' % (nm, S, '; '.join(D)))
            o.append('Proof. apply no_silent_drop_except_intro; by_vm. Qed.\n')
        else:
            o.append('Lemma nsd_%s_partial : no_silent_drop_except link_sites %s [%s] [].' % (nm, S, '; '.join(D)))
            fid = re.sub(r'[^A-Za-z0-9_]', '_', s['func'])
            o.append('Proof.\n  apply (no_silent_drop_except_nolinks_intro %s [%s] (up_set "%s")); [by_vm | exact up_closed_%s | exact no_bad_link_above_%s].\nQed.\n' % (S, '; '.join(D), s['func'], fid, fid))
        conj_l.append('nsd_%s_partial' % nm)
        conj_t.append('no_silent_drop_except link_sites %s [%s] %s' % (S, '; '.join(D), 'bad_link_ids' if badup else '[]'))
        # one statement per site in Properties_C11.v (Print Assumptions is what costs there)
        o.append('Lemma nsd_%s_refuted_and_partial :\n  %s.' % (nm, ' /\\\n  '.join('(%s)' % t for t in conj_t)))
        term = conj_l[-1]
        for l in reversed(conj_l[:-1]):
            term = '(conj %s %s)' % (l, term)
        o.append('Proof. exact %s. Qed.\n' % term)
        spec.append('thm no_silent_drop_%s_refuted_and_partial nsd_%s_refuted_and_partial' % (nm, nm))
    # ---- chains
    ctext = re.search(r'Definition chains : list \(string \* list string\) :=\s*\[(.*?)\]\.\s*\n\s*\(\* the link sites of one hop',
                      open(os.path.join(C.COQ, 'Fault.v')).read(), re.S).group(1)
    cdefs = [(m.group(1), re.findall(r'"([^"]+)"', m.group(2))) for m in re.finditer(r'\("([^"]+)",\s*\[([^\]]*)\]\)', ctext)]
    good_ch, bad_ch = [], []
    for name, fs in cdefs:
        nm = re.sub(r'[^A-Za-z0-9_]+', '_', name).rstrip('_')
        hops = list(zip(fs, fs[1:]))
        badhop = None
        for k, (a, b) in enumerate(hops):
            for l in links:
                if l['func'] == a and l['callee'] == b and l['id'] in bad:
                    badhop = (k, a, b)
        Cn = '(chain_of "%s")' % name
        if badhop is None:
            o.append('Lemma ch_%s : chain_reaches_api link_sites %s.' % (nm, Cn))
            o.append('Proof. apply chain_reaches_api_intro; [by_vm | apply forallb_hops_bad; by_vm]. Qed.\n')
            good_ch.append((name, nm))
        else:
            k, a, b = badhop
            o.append('Lemma ch_%s_refuted : ~ chain_reaches_api link_sites %s.' % (nm, Cn))
            o.append('Proof. apply (chain_refute %s %d "%s" "%s"); by_vm. Qed.\n' % (Cn, k, a, b))
            o.append('Lemma ch_%s_partial : chain_reaches_api_except link_sites %s bad_link_ids.' % (nm, Cn))
            o.append('Proof. apply chain_reaches_api_except_intro; by_vm. Qed.\n')
            bad_ch.append((name, nm))
    o.append('Lemma chains_reach_api :\n  Forall (fun name => chain_reaches_api link_sites (chain_of name))\n    [%s].' % '; '.join('"%s"' % n for n, _ in good_ch))
    o.append('Proof. repeat (constructor; [first [%s] |]). constructor. Qed.\n' % ' | '.join('exact ch_%s' % m for _, m in good_ch))
    spec.append('thm chains_reach_api chains_reach_api')
    if bad_ch:
        o.append('Lemma chains_refuted_and_partial :\n  Forall (fun name => ~ chain_reaches_api link_sites (chain_of name) /\\\n'
                 '                       chain_reaches_api_except link_sites (chain_of name) bad_link_ids)\n    [%s].' % '; '.join('"%s"' % n for n, _ in bad_ch))
        o.append('Proof. repeat (constructor; [first [%s] |]). constructor. Qed.\n' % ' | '.join('exact (conj ch_%s_refuted ch_%s_partial)' % (m, m) for _, m in bad_ch))
        spec.append('thm chains_refuted_and_partial chains_refuted_and_partial')
    open(pf, 'w').write(part1 + '\n'.join(o) + '\n')
    open(os.path.join(C.COQ, 'props', 'C11.spec'), 'w').write('\n'.join(spec) + '\n')
    rc, out = C.sh(['coqc', '-Q', '.', 'Pnc', '-w', '-all', 'Proofs_Fault.v'], cwd=C.COQ, timeout=3000)
    if rc != 0:
        raise SystemExit('coqc Proofs_Fault.v failed:\n' + out[-3000:])
    rc, out = C.sh([sys.executable, os.path.join(C.VERIF, 'tools', 'mkprops.py'), 'C11', os.path.join(C.COQ, 'props', 'C11.spec')],
                   cwd=C.VERIF, timeout=3000)
    print(out[-500:])
    rc, out = C.sh(['coqc', '-Q', '.', 'Pnc', '-w', '-all', 'Properties_C11.v'], cwd=C.COQ, timeout=3000)
    print('Properties_C11.v:', 'ok' if rc == 0 else out[-2000:])
    print(json.dumps(verdict, indent=1))


if __name__ == '__main__':
    if '--regen' in sys.argv:
        regen(sys.argv[sys.argv.index('--lib') + 1] if '--lib' in sys.argv else None)
