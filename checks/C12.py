"""C12  Burst-buffer driver is transparent to the application.

PROVED (coq/Proofs_BurstBuffer.v about the executable model coq/BurstBuffer.v of src/drivers/ncbbio;
statements in coq/Properties_C12.v):  rounds_agree (count loop = batch loop of ncbbio_log_flush_core for
every entry list and buffer size >= largest entry: same number of rounds, every entry replayed once and
in order, every round makes progress; across ranks everybody performs exactly nrounds_all waits, an
independent flush never issues a collective wait), flush_refines_direct / replay_rounds_refines (replaying
a log whose entries write no element twice = applying the puts directly, for ANY batching and ANY order
inside a batch, one or many ranks), status_delivery (repaired loop; the loop of the tree before adb6eb2b is
kept as status_delivery_old_refuted / _partial), record-count rule = default driver's rule,
buffer >= largest entry invariant, log_removed_at_close, and the session-level theorems
(read_own_writes, visible_after_sync_points, bb_equals_default).

TIE, re-established on every run:
 * translator tools/tr_bbflush.py regenerates coq/Gen_bbflush.v from the sources as built (shape of the
   status loop, presence of the flush triggers in get/wait/sync/flush/redef/close, unlink at close, entry
   constants); the model and the proofs are rebuilt against it (fail closed);
 * correspondence/differential: generated programs (pnc/c12_gen.py) run UNCHANGED against the default build
   and the burst-buffer build (harness/pnc_impl.c + harness/c12_hook.c, which wraps the ncmpio driver table
   to record every replayed iput and every internal wait and can inject per-request statuses), flush buffer
   from "one entry" to unlimited, shared / per-process logs, del_on_close on/off, 1-4 ranks, collective and
   independent mode.  Compared: every get buffer, every status, inq_numrecs after sync points on every
   rank, the logical content of the final files (read back with the DEFAULT library; only elements that
   were written), the log directory after close; against the model: the exact sequence of internal
   iput/wait calls per rank (batches, rounds, trailing participation waits), request ids, statuses, record
   counts, read values, final content, and the metadata log entries left in retained log files.
   Scenario family "large staged volume" (harness/c12_big.c): 1-4 ranks stage 9-17 MiB each between two flushes (more than
   one 8 MiB block of a node-shared log file; per-process logs and the default driver as controls), flush by wait_all / sync /
   get / close, every element is verified inside the harness through the open handle and, after close, through the default driver.
ORACLE = the property text evaluated on the burst-buffer run alone."""
import os, re, struct, ast, shutil, concurrent.futures as cf
from pnc import common as C
from pnc import scripts as S
from pnc import c12_gen as G
from pnc import oracle as O
from pnc.cmp import read_log
from pnc.gen import ELSIZE

LEVEL = 'proof'
ASSUMPTIONS = [
    'destination file modelled as a map (varid, index) -> value: byte offsets / type conversion of the replayed puts are the default driver\'s (ncmpio, properties C01/C02/C09), exercised here only differentially',
    'ncmpio modelled by its effect: the puts of one batch completed by one wait are applied in an arbitrary order (theorems quantify over it) and raise the record count; MPI collectives modelled by evaluating all ranks together',
    'programs obey the documented discipline: no element written twice between two flushes of a log, cross-rank accesses separated by a collective sync point + barrier, elements of pending nonblocking puts untouched, cancel only before a flush trigger',
    'data log / metadata log file layout checked by correspondence (retained logs), not proved; crash recovery from logs is out of scope',
    'status delivery is observable only with injected statuses (harness/c12_hook.c overwrites the statuses returned by the real ncmpio wait)',
    'all runs use ROMIO (OMPI_MCA_io=romio321): OpenMPI\'s default ompio returns short data for some collective strided reads ending at EOF (both drivers alike)',
    'generated programs stay away from histories that trigger known defects of the DEFAULT driver used as reference (F1 subset waits with record variables, F3 "same as ALL" shortcuts: NULL ids next to subsets, blocking varn calls while requests are pending, zero-length varn entries)',
    'session theorems (read_own_writes, visible_after_sync_points, bb_equals_default) exclude cancel and the NC_PUT_REQ_ALL mix (wf_stepb); the record-count part is proved as agreement after a collective flush + own records visible, its equality with the default driver over whole sessions is checked by correspondence only',
]
HOOK = os.path.join(C.VERIF, 'harness', 'c12_hook.c')
SHARED_BLOCK = 8388608
KNOWN_KEYS = (G.KEY_CANCEL, G.KEY_BEGIN, G.KEY_WAITMIX, G.KEY_UNLINK)


# ---------------------------------------------------------------------------------- running
MPIIO = 'romio321'      # OpenMPI's default ompio returns short data for some collective strided reads that end at
                        # EOF (seen with 4 ranks, both drivers alike; ROMIO reads the same file correctly)


def run_exe(exe, np_, script_path, env, cwd, timeout):
    env = dict(env); env.setdefault('OMPI_MCA_io', os.environ.get('C12_MPIIO', MPIIO))
    if np_ == 1:
        e = dict(os.environ); e.update(env)
        return C.sh([exe, script_path], timeout=timeout, env=e, cwd=cwd)
    return C.mpirun(np_, exe, [script_path], env=env, timeout=timeout, cwd=cwd)


class Run:
    pass


def run_program(P, tag, work, bbexe, deexe, flags=(), timeout=25, bb_text=None, de_text=None):
    d = os.path.join(work, tag)
    r = Run(); r.dir = d; r.flags = list(flags)
    for sub in ('bb', 'de'):
        os.makedirs(os.path.join(d, sub), exist_ok=True)
    logs = os.path.join(d, 'bb', 'logs'); os.makedirs(logs, exist_ok=True)
    r.bb_text = (bb_text or P.text(True)).replace('@LOGDIR@', logs)
    r.de_text = de_text or P.text(False)
    rb = P.readback_script()
    for sub, txt in (('bb', r.bb_text), ('de', r.de_text)):
        open(os.path.join(d, sub, 'script.txt'), 'w').write(txt)
        open(os.path.join(d, sub, 'rb.txt'), 'w').write(rb)
    inj = ','.join('%d:%d' % f for f in flags)
    env = {'PNC_DIR': os.path.join(d, 'bb'), 'PNC_OUT': os.path.join(d, 'bb', 'out')}
    if inj:
        env['C12_INJECT'] = inj
    r.bb_rc, r.bb_out = run_exe(bbexe, P.np, os.path.join(d, 'bb', 'script.txt'), env, os.path.join(d, 'bb'), timeout)
    env = {'PNC_DIR': os.path.join(d, 'de'), 'PNC_OUT': os.path.join(d, 'de', 'out')}
    r.de_rc, r.de_out = run_exe(deexe, P.np, os.path.join(d, 'de', 'script.txt'), env, os.path.join(d, 'de'), timeout)
    r.bb = {}; r.de = {}; r.trace = {}
    for k in range(P.np):
        r.bb.update(read_log(os.path.join(d, 'bb', 'out.%d' % k)))
        r.de.update(read_log(os.path.join(d, 'de', 'out.%d' % k)))
        tp = os.path.join(d, 'bb', 'out.tr.%d' % k)
        r.trace[k] = [l.split() for l in open(tp).read().split('\n') if l.strip()] if os.path.exists(tp) else []
    r.listing = sorted(os.listdir(logs))
    r.meta = {}
    for f in r.listing:
        if f.endswith('.meta'):
            try:
                r.meta[f] = open(os.path.join(logs, f), 'rb').read(64 * 1024 * 1024)
            except OSError:
                r.meta[f] = b''
    # read both final files back with the DEFAULT library
    r.rb = {}
    r.timed_out = (r.bb_rc == -9 or r.de_rc == -9)
    for sub in ('bb', 'de'):
        env = {'PNC_DIR': os.path.join(d, sub), 'PNC_OUT': os.path.join(d, sub, 'rb')}
        rc, out = run_exe(deexe, 1, os.path.join(d, sub, 'rb.txt'), env, os.path.join(d, sub), timeout)
        r.timed_out = r.timed_out or rc == -9
        r.rb[sub] = read_log(os.path.join(d, sub, 'rb.0'))
    shutil.rmtree(d, ignore_errors=True)
    return r


def run_all(progs, work, bbexe, deexe, jobs=8, timeout=60, long_timeout=240):
    """run every program; a program whose run hit the watchdog is run again alone with a long
    watchdog (the machine may be heavily loaded): only a repeated timeout counts as a hang"""
    results = {}
    def expects_hang(P):
        # directed histories of the deadlock / race findings: a hang is the expected observation, do not wait long
        return bool(P.waitmix_lines) or (P.cfg.shared and P.cfg.delete and P.np > 1 and P.stats['reopen'] > 0)
    def one(x):
        tag, P, flags = x
        return tag, run_program(P, tag, work, bbexe, deexe, flags, timeout=(20 if expects_hang(P) else timeout))
    with cf.ThreadPoolExecutor(max_workers=jobs) as ex:
        for tag, r in ex.map(one, progs):
            results[tag] = r
    again = [x for x in progs if results[x[0]].timed_out and not expects_hang(x[1])]
    def two(x):
        tag, P, flags = x
        return tag, run_program(P, tag + '-again', work, bbexe, deexe, flags, timeout=long_timeout)
    with cf.ThreadPoolExecutor(max_workers=2) as ex:
        for tag, r in ex.map(two, again):
            results[tag] = r
            results[tag].retried = True
    return results, len(again)


# ---------------------------------------------------------------------------------- decoding
def final_content(P, rb):
    """{key: value} of the whole final file as read back, and its record count"""
    inq = rb.get((3, 0))
    if not inq or inq[1] != '0':
        return None, None
    view = O.FileView(inq[2:])
    if not view.ok:
        return None, None
    nr = max(view.numrecs, 0)
    out = {}
    for v in P.s.vars:
        o = rb.get((P.rb_lines[v.vid], 0))
        if not o or o[1] != '0' or len(o) < 3:
            continue
        shape = [nr if (i == 0 and v.isrec) else s for i, s in enumerate(v.shape)]
        idxs = G.var_index_order(shape) if all(s > 0 for s in shape) or not shape else []
        vals, _ = G.dec_buf(o[2], v.xtype, len(idxs))
        for i, x in zip(idxs, vals):
            out[(v.vid, tuple(i))] = x
    return out, view.numrecs


def parse_meta(blob, channel, shared):
    """entries of one rank's metadata log: list of (esize, kind, varid, ndims, data_off, data_len)"""
    base = channel * SHARED_BLOCK if shared else 0
    h = blob[base:base + 80]
    if len(h) < 80 or h[:8] != b'PnetCDF0':
        return None
    # NB: the driver writes num_entries at file offset 56, i.e. over the entry_begin field of the
    # header struct (whose num_entries field, at 48, stays 0); the first entry follows the header,
    # whose size is recomputed here as ncbbio_log_create does
    n, blen = struct.unpack('<qq', h[56:72])
    plen = struct.unpack('<i', blob[base + 72 + blen + 1:base + 72 + blen + 5])[0]
    begin = 80 + blen + 1 + 4 + plen + 1
    begin += (16 - begin % 16) % 16
    if n == begin:
        return []       # field at 56 still holds entry_begin: nothing was logged or flushed since the log was created
    out = []; p = base + begin
    for _ in range(n):
        e = blob[p:p + 40]
        if len(e) < 40:
            return None
        esize, kind, itype, varid, ndims, doff, dlen = struct.unpack('<qiiiiqq', e)
        out.append((esize, kind, varid, ndims, doff, dlen))
        if esize <= 0:
            return None
        p += esize
    return out


def expected_trace_line(P, ln):
    """the iput the flush must issue when it replays the entry created at script line ln"""
    a = P.ann[ln]; p = a['p']
    vals = a['vals'] if 'vals' in a else None
    if vals is None:
        vals = P.iput_vals[ln]
    v = P.s.vars[p['vid']]
    data = b''.join(O.mem_bytes(p['memk'], x) for x in vals)
    hexs = data.hex() if data else '-'
    if p['form'] == 'varn':
        t = ['N', str(v.vid), str(len(p['parts'])), str(v.nd), '1']
        for st, cnt, _ in p['parts']:
            t += [str(x) for x in st] + [str(x) for x in cnt]
        return t + [str(len(data)), hexs]
    st, cnt, sd = p['parts'][0]
    t = ['I', str(v.vid), str(v.nd)] + [str(x) for x in st] + [str(x) for x in cnt]
    t += [str(x) for x in sd] if sd is not None else ['S']
    return t + [str(len(data)), hexs]


# ---------------------------------------------------------------------------------- judging
class Finding:
    def __init__(self, cls, key, what, line=None, rank=None):
        self.cls, self.key, self.what, self.line, self.rank = cls, key, what, line, rank
    def __repr__(self):
        return '%s[%s] line %s rank %s: %s' % (self.cls, self.key, self.line, self.rank, self.what)


def own_status(P, flags, rank, put_line):
    """status the request created at put_line must receive = the one ncmpio returned for ITS entry"""
    try:
        g = P.replay_order[rank].index(put_line)
    except ValueError:
        return 0
    return -(1000 + g) if (rank, g) in flags else 0


def judge_run(P, obs, flags, isbb, hang, crash):
    """ORACLE: the property text on one run's own observations.  Returns findings; for the
    burst-buffer run deviations that match the history of a known finding carry its key."""
    F = []; skip = set()
    who = 'bb' if isbb else 'ref'
    if isbb and P.cfg.shared and P.cfg.delete and P.np > 1:
        # re-opening with shared logs and del_on_close: a slow rank's unlink of the previous close may remove the log
        # file that channel 0 has just re-created, the other channels then fail to open it (NC_ENOENT) and the run hangs
        for ln, a in P.ann.items():
            if a.get('kind') == 'open':
                bad = [q for q in range(P.np) if len(obs.get((ln, q), [])) >= 2 and obs[(ln, q)][1] == '-220']
                if bad:
                    return [Finding('oracle', G.KEY_UNLINK, 'ncmpi_open fails with NC_ENOENT on ranks %s (log file unlinked by a slower rank after '
                                    'channel 0 re-created it)' % bad, ln, bad[0])], {'hang'}
    if hang:
        key = 'bb:hang' if isbb else 'ref:hang'
        stuck = []
        for q in range(P.np):
            for ln in range(1, len(P.lines) + 1):
                t = P.lines[ln - 1].split()
                if t and (t[0] == '*' or t[0] == str(q)) and len(obs.get((ln, q), [])) < 2:
                    stuck.append(ln); break
        if isbb and stuck and all(ln in P.waitmix_lines or P.lines[ln - 1].startswith('* barrier') for ln in stuck) \
                and any(ln in P.waitmix_lines for ln in stuck):
            key = G.KEY_WAITMIX
        F.append(Finding('oracle', key, 'run did not terminate (watchdog); ranks stuck at lines %s: %s'
                         % (stuck, [P.lines[ln - 1] for ln in stuck])))
        if key == G.KEY_WAITMIX:
            return F, {'hang'}
    if crash:
        F.append(Finding('oracle', 'bb:crash' if isbb else 'ref:crash', 'run crashed: ' + crash[-300:]))
    for ln in range(1, len(P.lines) + 1):
        text = P.lines[ln - 1]
        t = text.split()
        if not t or t[0] in ('nprocs', 'hint', '{', '}', '#', 'env'):
            continue
        ranks = range(P.np) if t[0] == '*' else [int(t[0])]
        a = P.ann.get(ln, {})
        for q in ranks:
            o = obs.get((ln, q))
            if o is None or len(o) < 2:
                if not (hang or crash):
                    F.append(Finding('oracle', who + ':no-observation', text, ln, q))
                continue
            op, rc = o[0], int(o[1])
            kind = a.get('kind')
            if kind == 'get':
                p = a['p']
                if rc != 0:
                    if isbb and a.get('lag') and rc == -40 and P.s.vars[p['vid']].isrec:
                        F.append(Finding('oracle', G.KEY_BEGIN, 'get of a flushed record fails with NC_EINVALCOORDS: ' + text, ln, q))
                        skip.add((ln, q))
                    else:
                        F.append(Finding('oracle', who + ':get:rc', 'rc %d: %s' % (rc, text), ln, q))
                    continue
                vals, guard = G.dec_buf(o[2], p['memk'], len(a['keys']), p['buf'])
                if not guard:
                    F.append(Finding('oracle', who + ':get:guard', text, ln, q))
                if vals != a['exp']:
                    own = all(True for _ in a['keys'])
                    F.append(Finding('oracle', who + ':get:value', 'read %s expected %s: %s' % (vals, a['exp'], text), ln, q))
            elif kind == 'wait':
                if rc != 0:
                    F.append(Finding('oracle', who + ':wait:rc', 'rc %d: %s' % (rc, text), ln, q)); continue
                n = int(o[2])
                order = a['order']
                sts = o[3:3 + max(n, 0)]
                slot_line = dict(a['puts'])
                for tok, st in zip(order, sts):
                    got = int(st.split(':')[0])
                    want = 0
                    if tok != 'N' and int(tok) in slot_line and isbb:
                        want = own_status(P, flags, q, slot_line[int(tok)])
                    if got != want:
                        F.append(Finding('oracle', who + ':status', 'slot %s received status %d, its own is %d: %s' % (tok, got, want, text), ln, q))
                bufs = dict(x[1:].split('=', 1) for x in o[3 + max(n, 0):] if x.startswith('B'))
                for slot, exp, p in a['gets']:
                    h = bufs.get(str(slot))
                    if h is None or h == 'same':
                        F.append(Finding('oracle', who + ':iget:buffer', 'buffer of slot %d not filled: %s' % (slot, text), ln, q)); continue
                    vals, guard = G.dec_buf(h.replace('!overrun', ''), p['memk'], len(exp), p['buf'])
                    if vals != exp or not guard:
                        F.append(Finding('oracle', who + ':iget:value', 'slot %d read %s expected %s: %s' % (slot, vals, exp, text), ln, q))
            elif kind == 'inq':
                if rc != 0:
                    F.append(Finding('oracle', who + ':numrecs:rc', 'rc %d' % rc, ln, q)); continue
                got = int(o[2]); want = a['expect'][q]
                if isbb and want < got <= a['upper']:
                    skip.add((ln, q))      # a flush completed a posted nonblocking put before its wait: legitimate
                elif got != want:
                    if isbb and a['extra'][q] > want and got == a['extra'][q]:
                        F.append(Finding('oracle', G.KEY_CANCEL, 'rank %d sees %d records, default driver %d (cancelled nonblocking put to record %d)'
                                         % (q, got, want, got - 1), ln, q)); skip.add((ln, q))
                    elif isbb and a['lag'] and got < want:
                        F.append(Finding('oracle', G.KEY_BEGIN, 'rank %d sees %d records after the flush, default driver %d' % (q, got, want), ln, q))
                        skip.add((ln, q))
                    else:
                        F.append(Finding('oracle', who + ':numrecs', 'rank %d sees %d records, expected %d' % (q, got, want), ln, q))
            elif kind == 'cancel':
                if rc != 0 or int(o[3].split(':')[0]) != 0:
                    F.append(Finding('oracle', who + ':cancel', ' '.join(o[:5]) + ': ' + text, ln, q))
            else:
                if rc != 0:
                    F.append(Finding('oracle', who + ':rc:' + op, 'rc %d: %s' % (rc, text), ln, q))
                elif kind == 'put' and len(o) > 2 and o[2] != 'same':
                    F.append(Finding('oracle', who + ':put-buffer-modified', text, ln, q))
    return F, skip


def norm_tokens(o):
    if o is None:
        return None
    if o[0] in ('iput', 'bput', 'iget'):
        return o[:2]                       # request ids are numbered differently by the two drivers
    if o[0] in ('create', 'open'):
        return o[:2]
    return o


def judge(P, r, mobs):
    """all relations for one program; mobs = the model's observation list (or None)"""
    flags = set(r.flags)
    F = []
    bbF, skip = judge_run(P, r.bb, flags, True, r.bb_rc == -9, None if r.bb_rc in (0, -9) else r.bb_out)
    deF, _ = judge_run(P, r.de, set(), False, r.de_rc == -9, None if r.de_rc in (0, -9) else r.de_out)
    F += bbF
    if 'hang' in skip:
        return F                     # nothing after a deadlock is comparable
    for f in deF:
        f.cls = 'reference'
    F += deF
    # --- final content, read back with the default library
    cbb, nbb = final_content(P, r.rb['bb'])
    cde, nde = final_content(P, r.rb['de'])
    want_nr = max(P.dview) if any(l == 0 for _, l in P.s.dims) else -1
    if cbb is None:
        F.append(Finding('oracle', 'bb:final:unreadable', 'final file of the burst-buffer run cannot be read back'))
    else:
        bad = [(k, cbb.get(k), P.val[k]) for k in P.final_keys() if cbb.get(k) != P.val[k]]
        if bad:
            F.append(Finding('oracle', 'bb:final-content', '%d written elements differ, first: element %s holds %s expected %s' % (len(bad), bad[0][0], bad[0][1], bad[0][2])))
        if nbb != want_nr:
            F.append(Finding('oracle', 'bb:final-numrecs', 'file has %s records, expected %s' % (nbb, want_nr)))
    if cde is None:
        F.append(Finding('reference', 'ref:final:unreadable', 'final file of the default run cannot be read back'))
    else:
        bad = [(k, cde.get(k), P.val[k]) for k in P.final_keys() if cde.get(k) != P.val[k]]
        if bad:
            F.append(Finding('reference', 'ref:final-content', 'default run: element %s holds %s expected %s' % bad[0]))
        if nde != want_nr:
            F.append(Finding('reference', 'ref:final-numrecs', 'default run: %s records, expected %s' % (nde, want_nr)))
        if cbb is not None:
            bad = [k for k in P.final_keys() if cbb.get(k) != cde.get(k)]
            if bad or nbb != nde:
                F.append(Finding('diff', 'bb:final-differs-from-default', 'elements %s / numrecs %s vs %s' % (bad[:3], nbb, nde)))
    # --- log directory
    ncids = sorted({r.bb[(ln, 0)][2] for ln, a in P.ann.items() if a.get('kind') in ('create', 'open') and (ln, 0) in r.bb and len(r.bb[(ln, 0)]) > 2})
    if P.cfg.delete:
        if r.listing:
            F.append(Finding('oracle', 'bb:logfiles:left', 'log directory after close: %s' % r.listing))
    else:
        exp = set()
        for ncid in ncids:
            for k in ([0] if P.cfg.shared else range(P.np)):
                exp |= {'f0.nc_%s_%d.meta' % (ncid, k), 'f0.nc_%s_%d.data' % (ncid, k)}
        if set(r.listing) != exp:
            F.append(Finding('oracle', 'bb:logfiles:retention', 'log directory holds %s, expected %s' % (r.listing, sorted(exp))))
    # --- differential: same program, two drivers
    for key in sorted(set(r.bb) | set(r.de)):
        if key in skip:
            continue
        a, b = norm_tokens(r.bb.get(key)), norm_tokens(r.de.get(key))
        if a is not None and a[0] == 'wait' and flags:
            a = [x if ':' not in x or x.startswith('B') else '0:' + x.split(':', 1)[1] for x in a]   # injected statuses judged above
        if a != b:
            if any(f.line == key[0] and f.rank == key[1] for f in F):
                continue
            F.append(Finding('diff', 'bb:differs-from-default', 'BB %s / default %s: %s' % (str(a)[:200], str(b)[:200], P.lines[key[0] - 1]), key[0], key[1]))
    # --- model
    if mobs is not None:
        F += judge_model(P, r, mobs, skip)
    return F


def judge_model(P, r, mobs, skip):
    F = []
    def mm(rel, what, ln=None, q=None):
        F.append(Finding('model', 'corr_C12_' + rel, what, ln, q))
    ev = {k: [] for k in range(P.np)}
    entries = {k: [] for k in range(P.np)}
    mdata = {k: [] for k in range(P.np)}        # model: bytes handed to each replayed iput, in replay order
    for m in mobs:
        tag = m[0]
        if tag == 10:
            ev[m[1]].append(('I', m[2]))
        elif tag == 11:
            ev[m[1]].append(('W', m[2], m[3]))
        elif tag == 12:
            mdata[m[1]].append((m[2], m[3:]))
        elif tag == 13:
            mm('spin', 'model: batch loop of rank %d does not terminate' % m[1])
        elif tag == 20:
            o = r.bb.get((m[1], m[2]))
            if o is None or len(o) < 3 or int(o[2]) != m[3]:
                mm('reqid', 'model id %d, library %s' % (m[3], o), m[1], m[2])
        elif tag in (21, 22):
            ln = P.groupline.get((m[1], m[2]), m[1]); o = r.bb.get((ln, m[2]))
            if o is None:
                mm('status', 'no observation', ln, m[2]); continue
            n = int(o[2])
            got = [int(x.split(':')[0]) for x in o[3:3 + max(n, 0)]]
            if got != list(m[3:]):
                mm('status', 'model %s, library %s' % (list(m[3:]), got), ln, m[2])
        elif tag == 30:
            o = r.bb.get((m[1], m[2]))
            if o is None or len(o) < 3 or int(o[2]) != m[3]:
                mm('numrecs', 'model %d, library %s' % (m[3], o), m[1], m[2])
        elif tag == 40:
            ln = P.groupline.get((m[1], m[2]), m[1]); o = r.bb.get((ln, m[2])); a = P.ann.get(ln, {})
            if (ln, m[2]) in skip or a.get('kind') != 'get':
                continue
            if o is None or o[1] != '0':
                mm('get', 'library %s' % (o[:2] if o else None), ln, m[2]); continue
            vals, _ = G.dec_buf(o[2], a['p']['memk'], len(a['keys']), a['p']['buf'])
            if vals != list(m[3:]):
                mm('get', 'model %s, library %s' % (list(m[3:]), vals), ln, m[2])
        elif tag == 50:
            if bool(m[1]) != bool(r.listing):
                mm('logfiles', 'model says log files %s, directory %s' % ('exist' if m[1] else 'removed', r.listing))
        elif tag == 51:
            if bool(m[1]) != (r.bb_rc == -9):
                mm('spin', 'model spin=%d, library rc %d' % (m[1], r.bb_rc))
        elif tag == 60:
            cbb, nbb = final_content(P, r.rb['bb'])
            if cbb is not None:
                got = [cbb.get(k, -1) for k in P.final_keys()]
                if got != list(m[1:]):
                    mm('final', 'model %s, file %s' % (list(m[1:])[:8], got[:8]))
                P._nbb = nbb
        elif tag == 61:
            nbb = getattr(P, '_nbb', None)
            if nbb is not None and nbb >= 0 and nbb != m[1]:
                mm('final_numrecs', 'model %d, file %d' % (m[1], nbb))
        elif tag == 62:
            want = [P.val[k] for k in P.final_keys()]
            if want != list(m[1:]):
                mm('spec', 'Coq spec (direct application) %s, generator %s' % (list(m[1:])[:8], want[:8]))
        elif tag == 63:
            if m[1] != max(P.dview):
                mm('spec_numrecs', 'Coq spec %d, generator %d' % (m[1], max(P.dview)))
        elif tag == 70:
            entries[m[1]].append(tuple(m[4:10]))
    # internal traffic: batches, rounds, trailing participation waits
    for k in range(P.np):
        got = r.trace.get(k, [])
        exp = ev[k]
        if len(got) != len(exp):
            mm('trace', 'rank %d: library made %d internal calls, model %d: lib %s / model %s'
               % (k, len(got), len(exp), [' '.join(x[:2]) for x in got][:40], exp[:40])); continue
        for i, (g, e) in enumerate(zip(got, exp)):
            if e[0] == 'W':
                if g[0] != 'W' or int(g[1]) != e[1] or (g[2] == 'c') != bool(e[2]) or g[3] != '0':
                    mm('trace', 'rank %d call %d: library %s, model %s' % (k, i, g, e)); break
            else:
                want = expected_trace_line(P, e[1])
                if g != want:
                    mm('trace', 'rank %d call %d: library %s, model replays line %d = %s' % (k, i, ' '.join(g)[:160], e[1], ' '.join(want)[:160])); break
    # data-log reading: the bytes each replayed iput is given (model: flush_data over the rank's log, cancelled entries
    # included) against the bytes the library handed to ncmpio
    for k in range(P.np):
        calls = [g for g in r.trace.get(k, []) if g[0] in ('I', 'N')]
        if len(calls) != len(mdata[k]):
            if not any(f.key == 'corr_C12_trace' for f in F):
                mm('data', 'rank %d: library replayed %d entries, model %d' % (k, len(calls), len(mdata[k])))
            continue
        cache = {}
        for i, (g, (ln, cells)) in enumerate(zip(calls, mdata[k])):
            want = bytearray()
            for c in cells:
                l, ix = c // 65536, c % 65536
                if l not in cache:
                    a = P.ann[l]
                    cache[l] = b''.join(O.mem_bytes(a['p']['memk'], x) for x in a['vals'])
                want.append(cache[l][ix] if ix < len(cache[l]) else 0)
            got = '' if g[-1] == '-' else g[-1]
            if got != bytes(want).hex():
                mm('data', 'rank %d replay %d (entry of line %d): library hands ncmpio %s, model %s' % (k, i, ln, got[:80], bytes(want).hex()[:80]))
                break
    # retained metadata log
    if not P.cfg.delete and r.bb_rc == 0:
        ncid = None
        for ln in sorted(P.ann):
            if P.ann[ln].get('kind') in ('create', 'open') and (ln, 0) in r.bb:
                ncid = r.bb[(ln, 0)][2]
        for k in range(P.np):
            name = 'f0.nc_%s_%d.meta' % (ncid, 0 if P.cfg.shared else k)
            blob = r.meta.get(name)
            if blob is None:
                continue
            got = parse_meta(blob, k, P.cfg.shared)
            if got is None or [tuple(x) for x in got] != entries[k]:
                mm('log', 'rank %d metadata log %s (%s, %d bytes, head %s), model %s' % (k, got, name, len(blob), blob[:8], entries[k]))
    return F


# ---------------------------------------------------------------------------------- model runs
def run_model(cases, work, jobs=8, shard=60):
    """cases: list of (tag, coq term); returns {tag: obs list} (None when coqc failed)"""
    res = {}
    shards = [cases[i:i + shard] for i in range(0, len(cases), shard)]
    def one(ix):
        sh = shards[ix]
        d = os.path.join(work, 'coq%d' % ix); os.makedirs(d, exist_ok=True)
        src = ['From Coq Require Import ZArith List Bool.', 'From Pnc Require Import BurstBuffer.',
               'Import ListNotations.', 'Open Scope Z_scope.', 'Set Printing Width 1000000.', 'Set Printing Depth 10000000.']
        for i, (tag, term) in enumerate(sh):
            src.append('Definition c%d := %s.' % (i, term))
            src.append('Eval vm_compute in c%d.' % i)
        open(os.path.join(d, 'Cases.v'), 'w').write('\n'.join(src) + '\n')
        rc, out = C.sh(['coqc', '-Q', C.COQ, 'Pnc', '-w', '-all', 'Cases.v'], cwd=d, timeout=1500)
        parts = re.findall(r'=\s*(\[.*?\])\s*:\s*list obs', out, re.S)
        loc = {}
        if rc == 0 and len(parts) == len(sh):
            for (tag, _), ptxt in zip(sh, parts):
                loc[tag] = ast.literal_eval(ptxt.replace(';', ','))
        else:
            for tag, _ in sh:
                loc[tag] = None
            loc['__err__'] = out[-1500:]
        shutil.rmtree(d, ignore_errors=True)
        return loc
    with cf.ThreadPoolExecutor(max_workers=jobs) as ex:
        for loc in ex.map(one, range(len(shards))):
            res.update(loc)
    return res


# ---------------------------------------------------------------------------------- large staged volume
BIG = os.path.join(C.VERIF, 'harness', 'c12_big.c')


def big_configs(tier):
    """(np, logs: 'shared' | 'perproc' | 'default', mode, flush buffer bytes, base MiB, step MiB): every rank stages
    base + rank*step MiB between two flushes, i.e. more than one 8 MiB block of a node-shared log file"""
    cfgs = [(2, 'shared', 'w', 0, 9, 4), (3, 'shared', 's', 6291456, 9, 4), (2, 'shared', 'g', 0, 10, 7), (2, 'shared', 'c', 3145728, 9, 8),
            (2, 'perproc', 'w', 0, 9, 4), (2, 'default', 's', 0, 9, 4)]
    if tier != 'quick':
        cfgs += [(3, 'shared', 'w', 0, 9, 4), (4, 'shared', 'g', 8388608, 9, 2), (2, 'shared', 's', 0, 16, 1), (3, 'shared', 'c', 0, 9, 4),
                 (1, 'shared', 'w', 0, 17, 0), (3, 'perproc', 's', 4194304, 9, 4), (2, 'default', 'w', 0, 9, 4)]
    return cfgs


def run_big(cfg, exe, work, ix, timeout=240):
    np_, logs, mode, fb, base, step = cfg
    d = os.path.join(work, 'big%d' % ix); logdir = os.path.join(d, 'logs'); os.makedirs(logdir, exist_ok=True)
    args = [os.path.join(d, 'big.nc'), '-' if logs == 'default' else logdir, '1' if logs == 'shared' else '0', mode, str(fb), str(base), str(step)]
    io = os.environ.get('C12_MPIIO', MPIIO)
    if np_ > 1:
        rc, out = C.mpirun(np_, exe, args, env={'OMPI_MCA_io': io}, timeout=timeout, cwd=d)
    else:
        rc, out = C.sh([exe] + args, timeout=timeout, cwd=d, env=dict(os.environ, OMPI_MCA_io=io))
    left = sorted(os.listdir(logdir))
    shutil.rmtree(d, ignore_errors=True)
    return rc, out, left


def judge_big(cfg, rc, out, left):
    """ORACLE on the run's own observations: every element a rank staged is read back (through the burst-buffer handle
    after the flush trigger, and from the destination file through the default driver after close) with its value"""
    np_, logs, mode, fb, base, step = cfg
    F = []
    name = 'np=%d logs=%s trigger=%s flushbuf=%d staged=%d+%d*rank MiB' % (np_, logs, dict(w='wait_all', s='sync', g='get', c='close')[mode], fb, base, step)
    pre = 'bb:bigvolume' if logs != 'default' else 'ref:bigvolume'
    if rc == -9:
        F.append((pre + ':hang', name + ': run did not terminate')); return F
    if rc != 0:
        F.append((pre + ':crash', name + ': rc %d %s' % (rc, out[-300:]))); return F
    seen = set()
    for l in out.split('\n'):
        t = l.split()
        if not t:
            continue
        if t[0] == 'E':
            F.append((pre + ':rc:' + t[2], '%s: rank %s %s returned %s' % (name, t[1], t[2], t[3])))
        elif t[0] == 'R':
            seen.add((int(t[1]), t[2]))
            if int(t[4]) != 0:
                F.append(('%s:%s' % (pre, {'own': 'read-own-writes', 'next': 'visible-after-sync', 'final': 'final-content'}[t[2]]),
                          '%s: rank %s %s: %s of %s elements wrong, first at index %s: read %s expected %s'
                          % (name, t[1], {'own': 'read-back through the open handle', 'next': "next rank's data after sync",
                                          'final': 'destination file after close (default driver)'}[t[2]], t[4], t[3], t[5], t[6], t[7])))
    for q in range(np_):
        for ph in (['final'] if mode == 'c' else ['own', 'final']) + (['next'] if mode == 's' and np_ > 1 else []):
            if (q, ph) not in seen:
                F.append((pre + ':no-observation', '%s: rank %d phase %s missing' % (name, q, ph)))
    if logs != 'default' and left:
        F.append((pre + ':logfiles:left', '%s: log directory after close: %s' % (name, left)))
    return F


# ---------------------------------------------------------------------------------- the check
HINTS = [0, 0, 1, 1, 8, 16, 24, 64, 4096]


def make_programs(ctx, n_random):
    """directed programs (every configuration class) + random programs"""
    progs = []
    rng = ctx.rng.fork('c12')
    di = 0
    for name, np_, hint, shared, delete, flags in [
            ('status', 1, 0, False, True, [(0, 0), (0, 2)]), ('status', 1, 0, False, True, [(0, 3)]),
            ('status', 2, 0, True, True, [(0, 1), (1, 0), (1, 3)]), ('status', 3, 1, False, False, [(0, 2), (2, 1)]),
            ('status', 4, 24, True, False, [(3, 3), (1, 2)]),
            ('cancel', 1, 0, False, True, []), ('cancel', 2, 16, True, False, []),
            ('begin', 2, 0, False, True, []), ('begin', 3, 8, True, True, []),
            ('rounds', 1, 1, False, True, [(0, 1)]), ('rounds', 2, 1, False, False, []), ('rounds', 3, 8, True, True, [(0, 3)]),
            ('rounds', 4, 16, False, True, []), ('rounds', 4, 0, True, False, []),
            ('retain', 1, 0, False, False, []), ('retain', 2, 8, True, False, []), ('retain', 3, 1, False, False, []),
            ('retain', 2, 16, False, True, []), ('retain', 4, 8, True, True, []), ('retain', 3, 0, True, True, []),
            ('waitmix', 2, 0, False, True, []), ('waitmix', 4, 16, True, False, []),
            ('cancelpat', 1, 0, False, True, []), ('cancelpat', 1, 24, False, False, []), ('cancelpat', 2, 4096, True, True, [(0, 7), (1, 30)]),
            ('cancelpat', 2, 12, False, True, []), ('cancelpat4', 3, 0, False, True, []), ('cancelpat4', 3, 24, True, False, [])]:
        cfg = G.Cfg(np_, hint, shared, delete)
        P = G.Program(rng.fork('d%d' % di), cfg, directed=G.DIRECTED[name])
        progs.append(('d%02d-%s' % (di, name), P, flags)); di += 1
    for i in range(n_random):
        r = rng.fork('r%d' % i)
        cfg = G.Cfg(r.choice([1, 1, 2, 2, 3, 4]), r.choice(HINTS), r.chance(1, 2), r.chance(2, 3), fmt=None)
        flagged = r.chance(1, 12)
        # (re-opening with shared logs + del_on_close on >1 ranks races: finding KEY_UNLINK, directed case only)
        reopen = False if (cfg.shared and cfg.delete and cfg.np > 1) else None
        P = G.Program(r, cfg, nsteps=r.range(8, 22), allow_lag=flagged and r.chance(1, 2), allow_cancel_rec=flagged,
                      want_reopen=reopen)
        flags = []
        if r.chance(1, 3):
            for q in range(P.np):
                n = len(P.replay_order[q])
                for _ in range(r.range(0, 2)):
                    if n:
                        flags.append((q, r.below(n)))
        progs.append(('r%04d' % i, P, sorted(set(flags))))
    return progs


def run(ctx):
    libde = C.libdir()
    libbb = C.libdir('bb')
    deexe = S.impl_exe(libde)
    bbexe = C.build_c(libbb, [S.IMPL_SRC, HOOK], 'c12_impl', extra=['-Dmain=pnc_impl_main'])
    pr = C.prove(ctx.pid, gens=('consts', 'bbflush'), lib=libde)
    proof_ok = ctx.add_proof(pr, 'tools/tr_consts.py + tools/tr_bbflush.py <lib> ; make -C coq Properties_C12.vo ; coqc Properties_C12.v (Print Assumptions)')
    ctx.cov['trusted_base'] = list(C.TRUSTED_COMMON) + [
        'tools/tr_bbflush.py (pattern recognition of the status loop, flush triggers, unlink, entry struct in src/drivers/ncbbio)',
        'harness/c12_hook.c (wraps iput_var/iput_varn/wait of the ncmpio driver table; status injection), pnc/c12_gen.py (generator + oracle), python orchestration in checks/C12.py',
        'the default build of the same tree as reference driver and as reader of both final files',
    ]
    ctx.assumptions += ASSUMPTIONS
    if not proof_ok:
        ctx.violation('proof obligations of C12 do not check: %s' % (pr['failed'],), dict(log=pr['log'][-3000:]), no_input=True)
    work = C.scratch('c12.')
    nrand = int(os.environ.get('C12_NRAND', 130 if ctx.tier == 'quick' else 1800))
    progs = make_programs(ctx, nrand)
    # scenario family "large staged volume" (own C harness: buffers are compared there, only verdict lines come back)
    bigexe = C.build_c(libbb, [BIG], 'c12_big')
    bigcfgs = big_configs(ctx.tier)
    with cf.ThreadPoolExecutor(max_workers=2) as ex:
        bigres = list(ex.map(lambda ic: run_big(ic[1], bigexe, work, ic[0]), enumerate(bigcfgs)))
    nbigbad = 0
    for cfg, (rc, out, left) in zip(bigcfgs, bigres):
        if rc == -9:                          # loaded machine: once more, alone
            rc, out, left = run_big(cfg, bigexe, work, 99, timeout=600)
        Fb = judge_big(cfg, rc, out, left)
        ctx.count('large staged volume %s\n%s' % (cfg, out[-600:]), nontrivial=True)
        for key, what in Fb[:1]:
            nbigbad += 1
            rep = dict(bigcase=list(cfg), finding=what, all_findings=[w for _, w in Fb][:8], output=out[-2000:])
            if key.startswith('ref:'):
                ctx.violation('corr_C12_reference (large staged volume, default driver): ' + what, rep, no_input=True)
            else:
                ctx.violation('burst-buffer run violates the property: ' + what, rep, key=key)
    ctx.cov['large_volume_cases'] = [list(c) for c in bigcfgs]
    results, nretry = run_all(progs, work, bbexe, deexe)
    ctx.cov['programs_rerun_after_watchdog'] = nretry
    ctx.cov['mpi_io_layer'] = os.environ.get('C12_MPIIO', MPIIO)
    mres = {}
    if proof_ok or os.path.exists(os.path.join(C.COQ, 'BurstBuffer.vo')):
        mres = run_model([(tag, P.coq_case(flags)) for tag, P, flags in progs], work)
        if '__err__' in mres:
            ctx.violation('corr_C12_model: the model could not be evaluated on the cases', dict(log=mres['__err__']), no_input=True)
    dist = dict(np={}, hint={}, shared={}, delete={}, injected=0, ops={})
    seen_keys = {}
    nviol = 0
    for tag, P, flags in progs:
        r = results[tag]
        F = judge(P, r, mres.get(tag))
        c = P.cfg
        dist['np'][c.np] = dist['np'].get(c.np, 0) + 1
        dist['hint'][c.hint] = dist['hint'].get(c.hint, 0) + 1
        dist['shared'][c.shared] = dist['shared'].get(c.shared, 0) + 1
        dist['delete'][c.delete] = dist['delete'].get(c.delete, 0) + 1
        dist['injected'] += 1 if flags else 0
        for k, v in P.stats.items():
            dist['ops'][k] = dist['ops'].get(k, 0) + v
        nontriv = (P.stats['put'] + P.stats['iput'] + P.stats['bput']) >= 2 and (P.stats['get'] + P.stats['wait'] + P.stats['flush'] + P.stats['sync']) >= 1
        ctx.count('%s [%s] inject=%s\n%s' % (tag, c.desc(), flags, r.bb_text), nontrivial=nontriv)
        reported = set()
        for f in F:
            if f.key in reported:
                continue
            reported.add(f.key)
            rep = dict(program=tag, config=c.desc(), inject=flags, finding=repr(f), all_findings=[repr(x) for x in F][:12],
                       script_bb=r.bb_text, script_default=r.de_text, np=c.np)
            if f.cls == 'oracle':
                if f.key in KNOWN_KEYS:
                    seen_keys[f.key] = seen_keys.get(f.key, 0) + 1
                ctx.violation('burst-buffer run violates the property: ' + repr(f), rep, key=f.key)
            elif f.cls == 'diff':
                ctx.violation('burst-buffer run differs from the default run: ' + repr(f), rep, key=f.key)
            elif f.cls == 'reference':
                ctx.violation('corr_C12_reference (default-driver run deviates from the specification the generator assumes): ' + repr(f), rep, no_input=True)
            else:
                ctx.violation('%s (model and library disagree, oracle passes): %s' % (f.key, repr(f)), rep, no_input=True)
    dist['known_finding_hits'] = seen_keys
    ctx.cov['distribution'] = {k: ({str(a): b for a, b in v.items()} if isinstance(v, dict) else v) for k, v in dist.items()}
    ctx.cov['rule'] = ('directed programs (status injection, cancelled record put, begin_indep with unflushed log, uneven rounds with tiny '
                       'buffers, retained logs + reopen) + random programs of blocking/nonblocking/buffered puts (var/var1/vara/vars/varn, '
                       'typed and flexible, all memory types), gets, igets, waits (lists, subsets, ALL kinds, NULL ids), cancels, flush, sync, '
                       'redef, begin/end_indep, close, reopen; configuration = ranks 1-4 x flush buffer {unlimited,1(one entry),8,16,24,64,4096} x '
                       'shared/per-process logs x del_on_close; non-trivial = at least two writes and one flush trigger')


def replay(ctx, d):
    """re-run a stored program (scripts are stored verbatim) and print what the two drivers observed"""
    libde = C.libdir(); libbb = C.libdir('bb')
    if d.get('bigcase'):
        cfg = tuple(d['bigcase'])
        rc, out, left = run_big(cfg, C.build_c(libbb, [BIG], 'c12_big'), C.scratch('c12r.'), 0)
        F = judge_big(cfg, rc, out, left)
        print(out[-1500:]); print('\n'.join(w for _, w in F) or 'large staged volume case passes')
        return 1 if F else 0
    deexe = S.impl_exe(libde)
    bbexe = C.build_c(libbb, [S.IMPL_SRC, HOOK], 'c12_impl', extra=['-Dmain=pnc_impl_main'])
    work = C.scratch('c12r.')
    np_ = int(d.get('np', 1))
    logs = os.path.join(work, 'bb', 'logs')
    os.makedirs(logs); os.makedirs(os.path.join(work, 'de'))
    bbt = re.sub(r'(hint nc_burst_buf_dirname )\S+', r'\1' + logs, d['script_bb'])
    open(os.path.join(work, 'bb', 's.txt'), 'w').write(bbt)
    open(os.path.join(work, 'de', 's.txt'), 'w').write(d['script_default'])
    env = {'PNC_DIR': os.path.join(work, 'bb'), 'PNC_OUT': os.path.join(work, 'bb', 'out')}
    if d.get('inject'):
        env['C12_INJECT'] = ','.join('%d:%d' % tuple(f) for f in d['inject'])
    rc1, _ = run_exe(bbexe, np_, os.path.join(work, 'bb', 's.txt'), env, os.path.join(work, 'bb'), 90)
    env = {'PNC_DIR': os.path.join(work, 'de'), 'PNC_OUT': os.path.join(work, 'de', 'out')}
    rc2, _ = run_exe(deexe, np_, os.path.join(work, 'de', 's.txt'), env, os.path.join(work, 'de'), 90)
    bad = 0
    for k in range(np_):
        a = read_log(os.path.join(work, 'bb', 'out.%d' % k)); b = read_log(os.path.join(work, 'de', 'out.%d' % k))
        for key in sorted(set(a) | set(b)):
            x, y = norm_tokens(a.get(key)), norm_tokens(b.get(key))
            if x != y:
                bad += 1
                print('line %d rank %d: BB %s | default %s' % (key[0], key[1], ' '.join(x or ['-'])[:160], ' '.join(y or ['-'])[:160]))
    print('replay: rc bb=%d default=%d, %d differing observations; log directory: %s' % (rc1, rc2, bad, sorted(os.listdir(logs))))
    print(d.get('finding'))
    return 1 if bad or rc1 or rc2 else 0
