"""C10 Hints, process count and execution modes never change results.

PROVED (coq/Properties_C10.v over the models coq/Config.v and coq/Aggregate.v):
  aggr_equiv (any number of ranks, any assignment of ranks to aggregators, pairwise disjoint
  (offset,bytes) pairs: gather + sort + merge + coalesce + one write by the aggregator == every rank
  writing its own pairs; for ANY sorted permutation the unstable sort may produce), disjoint writes
  commute, the groups of ncmpio_intra_node_aggr_init partition the ranks (1..8 ranks), flatten_req
  == the row-major spec for every accepted request (the pre-fix code is refuted: record stride),
  ibuf_pack_equiv / ibuf_unpack_equiv, swap_mode_equiv, offsets_only_by_alignment (non-interference
  over the configuration record), align_precedence + env_over_info, reported_hints_in_force,
  hash sizes always positive (the pre-fix code is refuted: 0 was accepted).
TIE (re-established on every run):
  1. differential correspondence: generated logical programs (blocking puts/gets, all forms but varm,
     typed/flexible, contiguous/vector buffers, invalid requests, name lookups, attributes) are laid
     out for 1..4 ranks with different decompositions and run under configurations drawn from the
     product {hints via MPI_Info | PNETCDF_HINTS} x alignment hints x _enddef arguments x nc_ibuf_size
     x nc_in_place_swap (requests on both sides of 4096 bytes) x hash sizes x romio_no_indep_rw x
     PNETCDF_SAFE_MODE x nc_num_aggrs_per_node x PNETCDF_VERIF_HDR_CHUNK x nprocs; every run is judged
     by the specification oracle (pnc.session.judge) and all runs of a program are compared pairwise
     (through the reference run): return codes, assembled read data, logical header, bytes of every
     written element at the offsets the run's own inq reports;
  2. the offsets and the hint values the library reports (inq of the script driver and
     harness/c10_info.c at the stages create / enddef / open) against Config.reported_after_open /
     reported_after_enddef (= Header.resolve_align + Header.begins) evaluated by vm_compute for that
     configuration, incl. odd hint strings and the PNETCDF_HINTS parser;
  3. the file written under aggregation against Aggregate.aggr_writes (flatten_req, gather order,
     sort, merge, coalesce) evaluated by vm_compute on the same requests;
  4. sanitizer runs (C.libdir('asan')) for hash-size 0 and for the aggregation set-up."""
import os, json, time, concurrent.futures as cf
from pnc import common as C, scripts as S, c10_gen as G, oracle as O
from pnc.session import judge

LEVEL = 'proof'
ASSUMPTIONS = [
    'MPI-IO semantics modelled: a write through a file view puts stream byte k at position k of the view; a '
    'non-contiguous buffer type is streamed in type-map order (in pieces of any size)',
    'concurrent overlapping writes of different ranks are excluded (undefined in MPI-IO); never-written bytes are undefined',
    'qsort_off_len_buf is modelled by its specification (some permutation sorted by offset); the theorems hold for every such permutation',
    'the split of a nonblocking lead request into per-record requests (ncmpio_add_record_requests) is taken as given in flatten_reqs',
    'single compute node in the correspondence runs (node ids all equal); placements on up to 3 nodes only in the proved partition property',
    'strtoll/atoi modelled for decimal strings within 64-bit range; MPI_Info value truncation at MPI_MAX_INFO_VAL not modelled',
]
CHECKER_CMD = ('coq_makefile -f _CoqProject -o Makefile && make -k -j16 Properties_C10.vo && '
               'coqc -Q . Pnc Properties_C10.v (Print Assumptions)')
ASAN_ENV = {'ASAN_OPTIONS': 'detect_leaks=0:abort_on_error=0', 'UBSAN_OPTIONS': 'print_stacktrace=1'}


# ---------------------------------------------------------------------------------- helpers
# ranks of oversubscribed runs must yield while they wait (8 concurrent runs of up to 4 busy-polling
# ranks each would otherwise starve one another and trip the watchdog)
ENV_BASE = {'OMPI_MCA_mpi_yield_when_idle': '1'}


def run_all(items, impl, wd, jobs=8, timeout=60):
    """items: list of (tag, script text, extra env or None) -> list of Result in order.
    A run that trips the watchdog is repeated once on its own with a longer limit: only a hang that
    persists on an otherwise idle harness is an observation."""
    def one(x):
        tag, text, env = x
        e = dict(ENV_BASE); e.update(env or {})
        return S.run_script(text, impl, None, wd, tag, timeout=timeout, env=e, want_model=False)
    with cf.ThreadPoolExecutor(max_workers=jobs) as ex:
        res = list(ex.map(one, items))
    for i, r in enumerate(res):
        if r.hang or r.crash:
            tag, text, env = items[i]
            e = dict(ENV_BASE); e.update(env or {})
            r2 = S.run_script(text, impl, None, wd, tag + '_again', timeout=4 * timeout, env=e, want_model=False)
            if not (r2.hang or r2.crash):
                # did not persist: the machine was overloaded (mpiexec start-up failures, watchdog);
                # recorded in the evidence, not a verdict
                TRANSIENT.append(dict(tag=tag, first='hang' if r.hang else 'crash', output=(r.stdout or '')[:500]))
            res[i] = r2
    return res


TRANSIENT = []


def coq_eval(wd, body, tag, timeout=600):
    """compile one cases file; returns ({idx: value}, raw output, rc)"""
    path = os.path.join(wd, 'cases_%s.v' % tag)
    with open(path, 'w') as f:
        f.write(G.COQ_PRELUDE + body)
    with C.Lock('coq-c10cases'):
        rc, out = C.sh(['coqc', '-Q', C.COQ, 'Pnc', '-w', '-all', path], timeout=timeout, cwd=wd)
    return G.parse_coq_output(out), out, rc


def recstride_piece(sess):
    """does a rank issue, in a collective call, a put on a record variable with count[0] > 1 and
    stride[0] > 1 (the request class flatten_req mishandles)?"""
    for a in sess.ann.values():
        if a.get('kind') == 'put' and a.get('mode') == 'c' and a.get('form') == 'vars':
            v = sess.s.vars[a['vid']]
            if v.isrec and a['count'] and a['count'][0] > 1 and a['stride'][0] > 1:
                return True
    return False


def aggr_active(cfg):
    return cfg['np'] > 1 and cfg.get('naggr') not in (None, 0, cfg['np'])


def classify(cfg, ref_cfg, sess, what):
    """stable key naming the configuration dimension"""
    d = G.cfg_diff(cfg, ref_cfg)
    if aggr_active(cfg):
        if recstride_piece(sess) and what == 'data-differs':
            return 'aggr:rec-stride:data-differs'
        return 'aggr:nprocs=%d:%s' % (cfg['np'], what)
    d = [x for x in d if x != 'naggr']
    if d == ['np'] or not d:
        return 'nprocs=%d:%s' % (cfg['np'], what)
    if 'move_unit' in d and all(x in ('np', 'move_unit') for x in d):
        return 'move_unit=%s:nprocs=%d:%s' % (cfg['move_unit'], cfg['np'], what)
    d2 = [x for x in d if x != 'np']
    if len(d2) == 1:
        v = cfg[d2[0]]
        if isinstance(v, list):
            v = ','.join(str(x) for x in v)
        return '%s=%s:%s' % (d2[0], v, what)
    return 'multi(%s):%s' % ('+'.join(d2), what)


def attribute(impl, wd, p, cfg, ref_cfg, ref_ob, what, pi, j):
    """a run that differs from the reference in several dimensions failed: re-run the program with
    each of those dimensions alone (same rank count, same delivery form) to name the one responsible"""
    dims = [d for d in G.cfg_diff(cfg, ref_cfg) if d not in ('np', 'via', 'naggr')]
    for d in dims:
        c1 = dict(ref_cfg); c1['np'] = cfg['np']; c1['via'] = cfg['via']; c1[d] = cfg[d]
        lrng = C.SplitMix64(C.hash_str('attr%d_%d_%s' % (pi, j, d)))
        sess, trace = G.layout(p, c1, lrng)
        r = run_all([('attr%d_%d_%s' % (pi, j, d), sess.text(), None)], impl, wd, jobs=1, timeout=90)[0]
        bad = r.hang or bool(r.crash)
        if not bad:
            bad = bool(judge(sess, r)) or bool(G.compare(p, ref_ob, G.observe(p, sess, trace, r)))
        if bad:
            return classify(c1, ref_cfg, sess, what)
    return None


# ---------------------------------------------------------------------------------- 1. differential
def differential(ctx, impl, wd, stats, nprog, nextra, layout_cases, nredef=0, thorough=False):
    rng = ctx.rng.fork('diff')
    progs = []
    for i in range(nprog):
        prng = rng.fork('p%d' % i)
        p = G.gen_program(prng)
        cfgs = G.config_set(prng, nextra)
        progs.append((i, p, cfgs, prng))
    # the redefinition family: data written, redef, header / fixed section grows, enddef moves the
    # data sections (rank counts 1..4, thorough 1..8, x PNETCDF_VERIF_MOVE_UNIT)
    rrng = ctx.rng.fork('redef')
    for i in range(nredef):
        prng = rrng.fork('r%d' % i)
        p = G.gen_redef_program(prng)
        cfgs = G.redef_config_set(prng, thorough)
        progs.append((nprog + i, p, cfgs, prng))
    items, meta = [], []
    for (i, p, cfgs, prng) in progs:
        for j, cfg in enumerate(cfgs):
            lrng = prng.fork('lay%d' % j)
            sess, trace = G.layout(p, cfg, lrng)
            env = {'OMPI_MCA_io': cfg['io']} if cfg.get('io') else None
            items.append(('d%d_%d' % (i, j), sess.text(), env))
            meta.append((i, j, p, cfg, sess, trace))
    t0 = time.time()
    results = run_all(items, impl, wd, jobs=8, timeout=90)
    stats['diff_wall_s'] = round(time.time() - t0, 1)
    byprog = {}
    for m, r in zip(meta, results):
        byprog.setdefault(m[0], []).append((m, r))
    reported = set()
    for i in sorted(byprog):
        runs = byprog[i]
        (m0, r0) = runs[0]
        p, ref_cfg, ref_sess = m0[2], m0[3], m0[4]
        obs = []
        for (m, r) in runs:
            _, j, _, cfg, sess, trace = m
            stats['runs'] += 1
            stats['nprocs'][str(cfg['np'])] = stats['nprocs'].get(str(cfg['np']), 0) + 1
            for d in G.cfg_diff(cfg, G.DEFAULT_CFG):
                stats['dims'][d] = stats['dims'].get(d, 0) + 1
            if aggr_active(cfg):
                stats['aggr_active_runs'] += 1
            fails = []
            if r.hang:
                fails.append(('hang', 'watchdog expired'))
            elif r.crash:
                fails.append(('crash', r.crash[-400:]))
            else:
                for f in judge(sess, r)[:3]:
                    fails.append((f['kind'], f['detail'][:300]))
            ob = G.observe(p, sess, trace, r) if not (r.hang or r.crash) else None
            if ob is not None:
                for pr in ob['problems'][:2]:
                    fails.append(('observation', pr))
            obs.append((m, r, ob, fails))
            ctx.count('%s || %s' % (G.cfg_repr(cfg), sess.text()), nontrivial=(ob is not None and len(ob['rc']) >= 3))
            # layout and reported hints against the model
            if ob is not None and 'inq0' in ob['layout']:
                layout_cases.append((p, cfg, ob['layout']['inq0'], ob['layout'].get('inq2'), sess, ob['layout'].get('inqR')))
            if getattr(p, 'redef', False):
                stats['redef_runs'] = stats.get('redef_runs', 0) + 1
        ref_ob, ref_fails = obs[0][2], obs[0][3]
        if ref_fails or ref_ob is None:
            # the reference run (1 rank, all defaults) itself violates the specification oracle:
            # not a configuration effect; reported under a `base:` key
            what, detail = ref_fails[0] if ref_fails else ('no-observation', '')
            key = 'base:%s' % what
            if key not in reported:
                reported.add(key)
                ctx.violation('reference configuration fails the specification oracle: %s: %s' % (what, detail),
                              dict(script=ref_sess.text(), nprocs=1, failures=ref_fails[:5]), key=key)
            stats['oracle_failures'] += 1
            continue
        # does the plain rank-count baseline (same np, everything else default) already differ?
        np_fail = {}
        for (m, r, ob, fails) in obs[1:]:
            cfg = m[3]
            if G.cfg_diff(cfg, ref_cfg) == ['np']:
                np_fail[cfg['np']] = bool(fails) or ob is None or bool(G.compare(p, ref_ob, ob))
        for (m, r, ob, fails) in obs[1:]:
            _, j, _, cfg, sess, trace = m
            diffs = G.compare(p, ref_ob, ob) if ob is not None else []
            stats['pairs_compared'] += 1
            if not fails and not diffs:
                continue
            stats['oracle_failures'] += 1
            if fails:
                what, detail = fails[0]
                w = {'roundtrip': 'data-differs', 'file-bytes': 'data-differs'}.get(what, what)
            else:
                w, detail = diffs[0]
            key = classify(cfg, ref_cfg, sess, w)
            if np_fail.get(cfg['np']) and not aggr_active(cfg):
                key = 'nprocs=%d:%s' % (cfg['np'], w)      # the rank count alone already does it
            if key.startswith('multi(') and key not in reported:
                key = attribute(impl, wd, p, cfg, ref_cfg, ref_ob, w, m[0], j) or key
            if key in reported:
                continue
            reported.add(key)
            ctx.violation('configuration [%s] changes the result of a program relative to [%s]: %s: %s'
                          % (G.cfg_repr(cfg), G.cfg_repr(ref_cfg), w, detail),
                          dict(config=cfg, reference_config=ref_cfg, script=sess.text(), reference_script=ref_sess.text(),
                               nprocs=cfg['np'], differences=[list(x) for x in diffs[:6]], oracle_failures=fails[:5],
                               how_to_replay='run both scripts with harness/pnc_impl.c (PNC_DIR, PNC_OUT; mpiexec -n <nprocs>) '
                                             'and compare the logical observations (pnc.c10_gen.observe/compare)'),
                          key=key)
    return progs


# ---------------------------------------------------------------------------------- 2. layout + hints vs model
def model_layout_check(ctx, wd, stats, layout_cases, proof_ok):
    """offsets reported by every differential run against Header.begins with THAT configuration's
    alignment (Config.reported_after_enddef), by vm_compute"""
    body = ''
    uniq = {}
    for (p, cfg, lay0, lay2, sess, layR) in layout_cases:
        k = (id(p), json.dumps({d: cfg.get(d) for d in ('via', 'h_align', 'v_align', 'r_align', 'ea')}, sort_keys=True))
        if k not in uniq:
            uniq[k] = len(uniq)
            # only the alignment part matters for the layout (that is the theorem); the model is
            # nevertheless evaluated with the full configuration of one representative run
            body += G.coq_enddef_case(uniq[k], p, cfg)
            if getattr(p, 'redef', False):
                body += G.coq_redef_case(500000 + uniq[k], p, cfg)
    if not uniq:
        return
    res, out, rc = coq_eval(wd, body, 'layout')
    if rc != 0:
        ctx.violation('corr_C10_layout: the model cases do not compile', dict(log=out[-2000:]), no_input=True)
        return
    bad = []
    for (p, cfg, lay0, lay2, sess, layR) in layout_cases:
        k = (id(p), json.dumps({d: cfg.get(d) for d in ('via', 'h_align', 'v_align', 'r_align', 'ea')}, sort_keys=True))
        v = res.get(uniq[k])
        stats['layout_checked'] += 1
        if v is None:
            bad.append((cfg, sess, 'model produced nothing')); continue
        nums_open, nums_end, lay = v
        checks = [('after enddef', lay0, lay), ('after re-open', lay2, lay)]
        if getattr(p, 'redef', False):
            # after the redefinition: NC_begins with the old header (offsets never shrink)
            vr = res.get(500000 + uniq[k])
            if vr is None:
                bad.append((cfg, sess, 'model produced nothing for the redefinition')); continue
            checks = [('after enddef', lay0, vr[0]), ('after redef+enddef', layR, vr[1]), ('after re-open', lay2, vr[1])]
            stats['redef_layout_checked'] = stats.get('redef_layout_checked', 0) + 1
        for lab, L, lay in checks:
            if L is None:
                continue
            want = [L['hsize'], L['hext'], None, L['recsize']] + L['offs']
            got = list(lay)
            if got == [-1]:
                bad.append((cfg, sess, 'model: enddef fails, library: succeeds')); break
            # begin_rec is not observable through inq when there is no record variable
            cmpw = [w for w in want]
            cmpw[2] = got[2]
            if got != cmpw:
                bad.append((cfg, sess, '%s: library hsize/hext/-/recsize/offsets %s, model %s' % (lab, want, got))); break
    stats['layout_mismatches'] = len(bad)
    if bad:
        cfg, sess, why = bad[0]
        # verdict protocol 2: the model (proved) and the library disagree.  The oracle for offsets
        # IS the alignment rule, so a disagreement is a property failure of the layout clause
        ctx.violation('corr_C10_layout: variable offsets differ from Header.begins evaluated with the configuration\'s alignment '
                      '(%d of %d runs); first: [%s] %s' % (len(bad), stats['layout_checked'], G.cfg_repr(cfg), why),
                      dict(config=cfg, script=sess.text(), nprocs=cfg['np'], why=why), key='layout:offsets-not-as-alignment-dictates')


ODD_NUM = ['64', ' 128', '64abc', '-5', 'abc', '0', '007', '4097', '99999999999999999999', '+32', '1e3', '12 ', '2147483647']


def info_cases(ctx, info_exe, wd, stats, n):
    """harness/c10_info.c: reported hint values at create / enddef / open and the offsets in force
    against the model, for odd hint strings in both delivery forms"""
    rng = ctx.rng.fork('info')
    cases = []
    for i in range(n):
        prng = rng.fork('i%d' % i)
        p = G.gen_program(prng, big=False)
        p.atts = []
        user, envp = [], []
        def put(k, v):
            (envp if prng.chance(1, 2) else user).append((k, v))
        for k in ('nc_header_align_size', 'nc_var_align_size', 'nc_record_align_size'):
            if prng.chance(1, 2):
                put(k, prng.choice(ODD_NUM + ['512', '100', '6', '4096']))
                if prng.chance(1, 4):
                    put(k, prng.choice(['8', '1000', '0']))          # the same key on both sides / twice
        if prng.chance(1, 2): put('nc_ibuf_size', prng.choice(ODD_NUM))
        if prng.chance(1, 2): put('nc_in_place_swap', prng.choice(['enable', 'Enable', 'DISABLE', 'auto', 'bogus', 'disable']))
        if prng.chance(1, 3): put('nc_header_read_chunk_size', prng.choice(['77', '4096', '-1']))
        for k in ('nc_hash_size_dim', 'nc_hash_size_var', 'nc_hash_size_gattr', 'nc_hash_size_vattr'):
            if prng.chance(1, 3): put(k, prng.choice(['1', '2', '256', '-4', '3', 'x', '16']))
        if prng.chance(1, 3): put('nc_num_aggrs_per_node', prng.choice(['0', '1', '2', '-1', '7']))
        if prng.chance(1, 4): put('romio_no_indep_rw', prng.choice(['true', 'false', 'TRUE']))
        # the PNETCDF_HINTS string, sometimes with the parser's corner cases
        envs = None
        if envp or prng.chance(1, 5):
            parts = ['%s=%s' % kv for kv in envp]
            if prng.chance(1, 3):
                parts.insert(prng.below(len(parts) + 1), prng.choice(['', ' ', 'junk', 'nc_ibuf_size = 5', 'a=b=c', ' nc_x=1 ', '=7']))
            envs = ';'.join(parts) + (';' if prng.chance(1, 3) else '')
            envs = envs.replace(' =', '=') if prng.chance(1, 2) else envs
        # values with blanks cannot travel through PNETCDF_HINTS unchanged: that is part of the model
        ea = None
        if prng.chance(1, 3):
            ea = [prng.choice([0, 10]), prng.choice([0, 16, 100]), prng.choice([0, 8]), prng.choice([0, 64, 6])]
        hook = prng.choice([None, None, '64', '4096'])
        safe = prng.choice([None, '0', '1', ''])
        np_ = prng.choice([1, 1, 2])
        # MPI_Info_set overrides: a key given twice on the MPI_Info side keeps its last value
        user = list({k: v for k, v in user}.items())
        cases.append(dict(p=p, user=user, envs=envs, ea=ea, hook=hook, safe=safe, np=np_))
    def run_one(ix):
        c = cases[ix]
        p = c['p']
        d = os.path.join(wd, 'info%d' % ix); os.makedirs(d, exist_ok=True)
        dims = ','.join('%s=%d' % (n, l) for n, l in p.s.dims) or '-'
        vs = ','.join('%s:%d:%s' % (v.name, v.xtype, '.'.join(map(str, v.dimids))) for v in p.s.vars) or '-'
        args = [os.path.join(d, 'f.nc'), str(p.s.fmt), dims, vs, ','.join(map(str, c['ea'])) if c['ea'] else '-']
        args += ['%s=%s' % kv for kv in c['user']]
        env = dict(ENV_BASE)
        if c['envs'] is not None: env['PNETCDF_HINTS'] = c['envs']
        if c['hook'] is not None: env['PNETCDF_VERIF_HDR_CHUNK'] = c['hook']
        if c['safe'] is not None: env['PNETCDF_SAFE_MODE'] = c['safe']
        if c['np'] == 1:
            e = dict(os.environ); e.update(env)
            return C.sh([info_exe] + args, env=e, timeout=120)
        return C.mpirun(c['np'], info_exe, args, env=env, timeout=120)
    with cf.ThreadPoolExecutor(max_workers=8) as ex:
        outs = list(ex.map(run_one, range(len(cases))))
    for ix in range(len(cases)):
        if outs[ix][0] != 0 or 'D done' not in outs[ix][1]:
            first = outs[ix]
            outs[ix] = run_one(ix)          # once more, on its own
            if outs[ix][0] == 0 and 'D done' in outs[ix][1]:
                TRANSIENT.append(dict(tag='info%d' % ix, first='rc %d' % first[0], output=first[1][-300:]))
    body = ''
    for ix, c in enumerate(cases):
        ea = c['ea'] or [0, 0, 0, 0]
        body += 'Eval vm_compute in (%d, enddef_case %s %s %s %s %d %s (mkeargs %s)).\n' % (
            ix, G.coq_info(c['user']), G.coq_opt_str(c['envs']), G.coq_opt_str(c['hook']), G.coq_opt_str(c['safe']),
            c['np'], G.coq_hdr(c['p']), ' '.join('(%d)' % x for x in ea))
    res, out, rc = coq_eval(wd, body, 'info')
    if rc != 0:
        ctx.violation('corr_C10_hints: the model cases do not compile', dict(log=out[-2000:]), no_input=True)
        return
    bad = []
    swapnum = {'enable': 1, 'disable': 2, 'auto': 0}
    for ix, (c, (prc, pout)) in enumerate(zip(cases, outs)):
        stats['info_cases'] += 1
        ctx.count('c10_info user=%s env=%r ea=%s hook=%s safe=%r np=%d' % (c['user'], c['envs'], c['ea'], c['hook'], c['safe'], c['np']),
                  nontrivial=bool(c['user'] or c['envs']))
        v = res.get(ix)
        if v is None:
            bad.append((c, 'model produced nothing', pout)); continue
        nums_open, nums_end, lay = v

        rep = {'create': {}, 'enddef': {}, 'open': {}}
        L = {}
        st = {}
        for line in pout.split('\n'):
            t = line.split(' ', 2)
            if t[0] == 'I' and len(t) == 3 and '=' in t[2]:
                k, val = t[2].split('=', 1)
                rep[t[1]][k] = val
            elif t[0] == 'L':
                kv = dict(x.split('=', 1) for x in line.split(' ')[2:])
                L[line.split(' ')[1]] = kv
            elif t[0] == 'S':
                st[t[1]] = line
        if 'D done' not in pout or prc != 0:
            bad.append((c, 'c10_info did not complete (rc %d): %s' % (prc, pout[-300:]), pout)); continue
        import re as _re
        m_end = _re.search(r'rc=(-?\d+)', st.get('enddef', ''))
        rc_end = int(m_end.group(1)) if m_end else None
        if rc_end not in (0, None):
            # enddef failed (e.g. NC_EVARSIZE: a huge alignment pushes the data past the CDF-1/2 limit):
            # the model must refuse the layout as well
            stats['info_enddef_errors'] = stats.get('info_enddef_errors', 0) + 1
            if list(lay) != [-1] or rc_end != -62:
                bad.append((c, 'enddef returns %d, model layout %s' % (rc_end, list(lay)), pout))
            continue
        def numsof(d):
            out = []
            for k in G.KEY_NAMES:
                try:
                    out.append(int(d.get(k, '-1')))
                except ValueError:
                    out.append(-2)
            out.append(swapnum.get(d.get('nc_in_place_swap', ''), 9))
            return out
        for stage, want in (('create', nums_open), ('enddef', nums_end), ('open', nums_open)):
            got = numsof(rep[stage])
            if got != list(want):
                bad.append((c, 'stage %s: library reports %s, model %s (keys %s + swap)' % (stage, got, list(want), G.KEY_NAMES), pout))
                break
        else:
            for stage in ('enddef', 'open'):
                l = L.get(stage)
                if l is None:
                    bad.append((c, 'no layout line for stage ' + stage, pout)); break
                offs = [int(x) for x in l['off'].split(',')] if l['off'] else []
                got = [int(l['hsize']), int(l['hext']), lay[2] if len(lay) > 2 else 0, int(l['recsize'])] + offs
                if list(lay) != got:
                    bad.append((c, 'stage %s: library hsize/hext/-/recsize/offsets %s, model %s' % (stage, got, list(lay)), pout)); break
            # "in force": the reported alignments really divide the offsets they govern
            if not bad or bad[-1][0] is not c:
                e = rep['enddef']; l = L.get('enddef')
                if l and c['p'].s.vars:
                    ha = int(e['nc_header_align_size']); ra = int(e['nc_record_align_size'])
                    offs = [int(x) for x in l['off'].split(',')]
                    fixed = [o for o, v in zip(offs, c['p'].s.vars) if not v.isrec]
                    recs = [o for o, v in zip(offs, c['p'].s.vars) if v.isrec]
                    if fixed and int(l['hext']) % ha != 0:
                        # (without a fixed-size variable the extent is the start of the record section)
                        bad.append((c, 'reported nc_header_align_size %d does not divide the header extent %s' % (ha, l['hext']), pout))
                    elif recs and min(recs) % ra != 0:
                        bad.append((c, 'reported nc_record_align_size %d does not divide the record section start %d' % (ra, min(recs)), pout))
    stats['info_mismatches'] = len(bad)
    if bad:
        c, why, pout = bad[0]
        ctx.violation('corr_C10_hints: ncmpi_inq_file_info / offsets differ from Config.reported_after_* (%d of %d cases); first: %s'
                      % (len(bad), len(cases), why),
                      dict(info=c['user'], PNETCDF_HINTS=c['envs'], enddef=c['ea'], PNETCDF_VERIF_HDR_CHUNK=c['hook'],
                           PNETCDF_SAFE_MODE=c['safe'], nprocs=c['np'], output=pout[-1500:], why=why),
                      key='reported-hints:not-in-force')
    # regression input: an empty value in PNETCDF_HINTS ("key=", "key= v") used to reach
    # MPI_Info_set(key, NULL) and abort the job; it must be skipped like any ill-formed hint
    for hs in ('nc_ibuf_size=', 'nc_ibuf_size= 77;nc_var_align_size=64'):
        d = os.path.join(wd, 'infonull'); os.makedirs(d, exist_ok=True)
        e = dict(os.environ); e.update(ENV_BASE); e['PNETCDF_HINTS'] = hs
        prc, pout = C.sh([info_exe, os.path.join(d, 'f.nc'), '1', 'x=3', 'v:4:0', '-'], env=e, timeout=120)
        if prc == -9:
            prc, pout = C.sh([info_exe, os.path.join(d, 'f.nc'), '1', 'x=3', 'v:4:0', '-'], env=e, timeout=480)
        ctx.count('c10_info PNETCDF_HINTS=%r' % hs, nontrivial=True)
        ok = 'D done' in pout and prc == 0 and 'I create nc_ibuf_size=16777216' in pout
        stats.setdefault('env_empty_value', []).append(dict(hints=hs, rc=prc, completed=('D done' in pout), default_ibuf=ok))
        if not ok:
            ctx.violation('PNETCDF_HINTS=%r (empty value) is not skipped: combine_env_hints passes a NULL value to MPI_Info_set '
                          '(MPI_ERR_INFO_VALUE under MPI_ERRORS_ARE_FATAL aborts the job) or the value is not ignored' % hs,
                          dict(PNETCDF_HINTS=hs, rc=prc, output=pout[-800:],
                               how_to_replay='PNETCDF_HINTS="%s" <c10_info> f.nc 1 x=3 v:4:0 -' % hs),
                          key='PNETCDF_HINTS:empty-value:abort')
            break


# ---------------------------------------------------------------------------------- 3. aggregation vs model
def aggr_cases(ctx, impl, wd, stats, n):
    rng = ctx.rng.fork('aggr')
    cases = []
    # the witness of Proofs_Aggregate.flatten_req_spec_refuted, replayed
    cases.append(dict(np=2, naggr=1, fmt=1, vars=[(4, True, [3])], reqs=[(0, [0, 0], [2, 3], [2, 1]), None], witness=True))
    for i in range(n):
        r = rng.fork('a%d' % i)
        np_ = r.choice([2, 3, 4, 4])
        naggr = r.choice([1, 1, 2]) if np_ > 2 else 1
        nv = r.range(1, 3)
        vars_ = []
        for k in range(nv):
            vrec = r.chance(1, 2)
            nfix = r.range(0 if vrec else 1, 2)
            vars_.append((r.choice([3, 4, 6, 1]), vrec, [r.range(2, 6) for _ in range(nfix)]))
        xt, vrec, dims0 = vars_[0]
        shape = ([0] + dims0) if vrec else list(dims0)
        # dimension 0 is shared out among the ranks (interleaved with stride np, or in blocks) so that
        # the requests are pairwise disjoint; the other dimensions are arbitrary sub-ranges
        mode = r.below(2)
        lim = 8 if vrec else shape[0]
        reqs = []
        for rk in range(np_):
            if r.chance(1, 6):
                reqs.append(None); continue
            if mode == 0:
                s0, c0, t0 = rk, max(0, min((lim - rk + np_ - 1) // np_, 3)), np_
            else:
                per = max(1, lim // np_)
                s0, c0, t0 = rk * per, (per if rk * per + per <= lim else 0), 1
            if c0 == 0:
                reqs.append(None); continue
            start, count, stride = [s0], [c0], [t0]
            for sh in shape[1:]:
                t = r.choice([1, 1, 2])
                st = r.below(sh)
                start.append(st); count.append(r.range(1, (sh - 1 - st) // t + 1)); stride.append(t)
            reqs.append((0, start, count, stride))
        cases.append(dict(np=np_, naggr=naggr, fmt=r.choice([1, 2, 5]), vars=vars_, reqs=reqs, witness=False))
    items = []
    for ix, c in enumerate(cases):
        for ag in (c['naggr'], 0):
            lines = ['nprocs %d' % c['np'], 'hint nc_num_aggrs_per_node %d' % ag, '* create 0 %d 1' % c['fmt'],
                     '* def_dim 0 %s -1' % G.hx('t')]
            dimid = 1
            vdefs = []
            for vi, (xt, vrec, inner) in enumerate(c['vars']):
                ids = [0] if vrec else []
                for l in inner:
                    lines.append('* def_dim 0 %s %d' % (G.hx('d%d' % dimid), l)); ids.append(dimid); dimid += 1
                vdefs.append((vi, xt, ids))
            for vi, xt, ids in vdefs:
                lines.append('* def_var 0 %s %d %d %s' % (G.hx('v%d' % vi), xt, len(ids), ' '.join(map(str, ids))))
            lines.append('* enddef 0')
            lines.append('{')
            nd = len(vdefs[0][2])
            xt = vdefs[0][1]
            for rk in range(c['np']):
                q = c['reqs'][rk]
                if q is None:
                    z = ' '.join(['0'] * nd)
                    lines.append('%d put 0 c 0 vara t%d c %d %s %s pat 1' % (rk, xt, nd, z, z))
                else:
                    _, st, cn, sd = q
                    lines.append('%d put 0 c 0 vars t%d c %d %s %s %s pat %d' % (rk, xt, nd, G.fmt_list(st), G.fmt_list(cn), G.fmt_list(sd), 11 + rk))
            lines.append('}')
            lines += ['* inq 0', '* snapshot 0', '* close 0']
            items.append(('ag%d_%d' % (ix, ag), '\n'.join(lines) + '\n', None))
    results = run_all(items, impl, wd, jobs=8, timeout=60)
    body = ''
    views = {}
    for ix, c in enumerate(cases):
        r_on, r_off = results[2 * ix], results[2 * ix + 1]
        c['r_on'], c['r_off'] = r_on, r_off
        c['script_on'], c['script_off'] = items[2 * ix][1], items[2 * ix + 1][1]
        inq_line = max(k[0] for k in r_on.impl if r_on.impl[k][0] == 'inq') if any(v[0] == 'inq' for v in r_on.impl.values()) else None
        if r_on.hang or r_on.crash or inq_line is None:
            continue
        vw = O.FileView(r_on.impl[(inq_line, 0)][2:])
        if not vw.ok:
            continue
        views[ix] = vw
        off0, xsz, shape, isrec, recsize, xt = vw.geom(0)
        nrec = sum(1 for (_, vr, _) in c['vars'] if vr)
        g = '(mkgeom %d %d %s %d %d)' % (off0, xsz, G.coq_zlist(shape), recsize, nrec)
        lim = O.pat_lim(xt, xt)
        reqs = []
        for rk in range(c['np']):
            q = c['reqs'][rk]
            if q is None:
                reqs.append('(%s, %s, %s, @None (list Z), @nil byte)' % (g, G.coq_zlist([0] * len(shape)), G.coq_zlist([0] * len(shape))))
            else:
                _, st, cn, sd = q
                data = b''.join(O.ext_bytes(xt, O.pat_value(11 + rk, k, lim)) for k in range(G.nelems(cn)))
                reqs.append('(%s, %s, %s, Some %s, %s)' % (g, G.coq_zlist(st), G.coq_zlist(cn), G.coq_zlist(sd), G.coq_zlist(list(data))))
        body += ('Eval vm_compute in (%d, (let cs := map contrib_of_req [%s] in\n'
                 '  let pick := map (fun r => znth cs r (@nil (Z*Z), @nil byte)) in\n'
                 '  let ids := repeat 0 %d in\n'
                 '  (pairs_disjoint (concat (map fst cs)),\n'
                 '   tiles_summary (aggr_writes empty_disk (map pick (aggr_groups %d %d ids)) (pick (unaggregated %d %d ids)))\n'
                 '                 (concat (map fst cs))))).\n') % (ix, '; '.join(reqs), c['np'], c['np'], c['naggr'], c['np'], c['naggr'])
    res, out, rc = coq_eval(wd, body, 'aggr')
    if rc != 0:
        ctx.violation('corr_C10_aggr: the model cases do not compile', dict(log=out[-2000:]), no_input=True)
        return
    model_bad, prop_bad = [], []
    for ix, c in enumerate(cases):
        stats['aggr_cases'] += 1
        ctx.count(c['script_on'], nontrivial=True)
        r_on, r_off = c['r_on'], c['r_off']
        if r_on.hang or r_on.crash or r_off.hang or r_off.crash or ix not in views:
            prop_bad.append((c, 'aggr:nprocs=%d:%s' % (c['np'], 'hang' if (r_on.hang or r_off.hang) else 'crash'),
                             (r_on.crash or r_off.crash or 'watchdog')[-300:]))
            continue
        def snap(r):
            ln = max(k[0] for k in r.impl if r.impl[k][0] == 'snapshot')
            o = r.impl[(ln, 0)]
            return b'' if (len(o) < 4 or o[3] in ('-', 'big')) else bytes.fromhex(o[3])
        s_on, s_off = snap(r_on), snap(r_off)
        vw = views[ix]
        off0, xsz, shape, isrec, recsize, xt = vw.geom(0)
        lim = O.pat_lim(xt, xt)
        # property: aggregation on == aggregation off (== the specification) on every written element
        for rk in range(c['np']):
            q = c['reqs'][rk]
            if q is None: continue
            _, st, cn, sd = q
            for k, idx in enumerate(O.req_indices(st, cn, sd)):
                off = O.elem_off(off0, xsz, shape, isrec, recsize, idx)
                want = O.ext_bytes(xt, O.pat_value(11 + rk, k, lim))
                a, b = s_on[off:off + xsz], s_off[off:off + xsz]
                if b != want:
                    prop_bad.append((c, 'base:file-bytes', 'without aggregation element %s holds %s, expected %s' % (idx, b.hex(), want.hex()))); break
                if a != b:
                    strided_rec = isrec and cn[0] > 1 and sd[0] > 1
                    prop_bad.append((c, 'aggr:rec-stride:data-differs' if strided_rec else 'aggr:nprocs=%d:data-differs' % c['np'],
                                     'rank %d put start %s count %s stride %s: element %s holds %s with nc_num_aggrs_per_node=%d, %s without'
                                     % (rk, st, cn, sd, idx, a.hex(), c['naggr'], b.hex()))); break
            else:
                continue
            break
        # model tie: the bytes the model predicts at every pair are the bytes on disk
        v = res.get(ix)
        if v is None:
            model_bad.append((c, 'model produced nothing')); continue
        flag, tiles = v
        if flag != [1]:
            # the model's own pairs overlap (only possible through the flatten_req defect): the
            # outcome depends on how the unstable sort orders them; not comparable
            stats['aggr_order_dependent'] = stats.get('aggr_order_dependent', 0) + 1
            continue
        for (off, bs) in tiles:
            got = list(s_on[off:off + len(bs)]) + [0] * (len(bs) - len(s_on[off:off + len(bs)]))
            if any(m >= 0 and m != x for m, x in zip(bs, got)):
                model_bad.append((c, 'at offset %d the model predicts %s, the file holds %s' % (off, bs, got))); break
    stats['aggr_model_mismatches'] = len(model_bad)
    stats['aggr_property_failures'] = len(prop_bad)
    seen = set()
    for (c, key, detail) in prop_bad:
        if key in seen: continue
        seen.add(key)
        ctx.violation('intra-node aggregation changes the file: %s' % detail,
                      dict(script=c['script_on'], script_without_aggregation=c['script_off'], nprocs=c['np'],
                           coq_witness='Proofs_Aggregate.flatten_req_spec_refuted' if c.get('witness') else None,
                           how_to_replay='PNC_DIR=<dir> PNC_OUT=<dir>/out mpiexec -n <nprocs> <pnc_impl> <script>; compare the snapshots'),
                      key=key)
    if model_bad:
        c, why = model_bad[0]
        ctx.violation('corr_C10_aggr: the file written under aggregation differs from Aggregate.aggr_writes (%d of %d cases); first: %s'
                      % (len(model_bad), len(cases), why), dict(script=c['script_on'], nprocs=c['np'], why=why), no_input=True)


# ---------------------------------------------------------------------------------- 4. sanitizer
def sanitizer_cases(ctx, wd, stats, thorough):
    try:
        lib = C.libdir('asan')
        impl = S.impl_exe(lib, asan=True)
    except C.BuildFailure as e:
        stats['asan'] = 'unavailable: ' + str(e)[-200:]
        return
    items = []
    defs = ('* create 0 1 1\n* def_dim 0 %s 3\n* def_var 0 %s 4 1 0\n* put_att 0 -1 %s 4 1 7\n* put_att 0 0 %s 4 1 8\n'
            '* enddef 0\n* put 0 c 0 vara t4 c 1 0 3 pat 5\n* inq_name 0 d %s\n* inq_name 0 v %s\n* get_att 0 -1 %s\n'
            '* get_att 0 0 %s\n* close 0\n' % (G.hx('x'), G.hx('var'), G.hx('ga'), G.hx('va'), G.hx('x'), G.hx('var'), G.hx('ga'), G.hx('va')))
    keys = ['nc_hash_size_dim', 'nc_hash_size_var', 'nc_hash_size_gattr', 'nc_hash_size_vattr']
    for k in keys:
        items.append(('hz_' + k, 'nprocs 1\nhint %s 0\n' % k + defs, ASAN_ENV, 'hash', k))
    # sound sizes under the sanitizer as a control
    items.append(('hz_ctl', 'nprocs 1\nhint nc_hash_size_dim 1\nhint nc_hash_size_var 2\nhint nc_hash_size_gattr 1\nhint nc_hash_size_vattr 1\n' + defs,
                  ASAN_ENV, 'control', '1/2/1/1'))
    # aggregation set-up with a partial last group (needs 5 ranks)
    ag = ('nprocs 5\nhint nc_num_aggrs_per_node 2\n* create 0 1 1\n* def_dim 0 %s -1\n* def_dim 0 %s 3\n* def_var 0 %s 4 2 0 1\n* enddef 0\n{\n' %
          (G.hx('t'), G.hx('x'), G.hx('v')) + ''.join('%d put 0 c 0 vara t4 c 2 %d 0 1 3 pat %d\n' % (r, r, r + 3) for r in range(5)) +
          '}\n* get 0 c 0 vara t4 c 2 0 0 5 3\n* close 0\n')
    items.append(('ag5', ag, ASAN_ENV, 'aggr5', '5 ranks, 2 aggregators'))
    if thorough:
        ag4 = ag.replace('nprocs 5', 'nprocs 4').replace('4 put 0 c 0 vara t4 c 2 4 0 1 3 pat 7\n', '').replace('0 0 5 3', '0 0 4 3')
        items.append(('ag4', ag4, ASAN_ENV, 'control', '4 ranks, 2 aggregators'))
    results = run_all([(t, s, e) for (t, s, e, _, _) in items], impl, wd, jobs=4, timeout=180)
    stats['asan'] = {}
    for (tag, script, env, kind, what), r in zip(items, results):
        txt = r.stdout or ''
        hit = 'AddressSanitizer' in txt or 'runtime error' in txt
        stats['asan'][tag] = 'sanitizer-report' if hit else ('hang' if r.hang else ('crash' if r.crash else 'clean'))
        ctx.count('asan %s %s' % (kind, what), nontrivial=True)
        if kind == 'control':
            if hit or r.crash or r.hang:
                ctx.violation('sanitizer control run fails (%s): %s' % (what, txt[-400:]), dict(script=script), key='asan-control:%s' % tag)
            continue
        if not (hit or r.crash or r.hang):
            continue
        import re
        frames = re.findall(r'(ERROR: AddressSanitizer[^\n]*|#\d+ 0x\w+ in (?:ncmpi\w+|NC\w*|nc\w+)[^\n]*|[^\n]*runtime error[^\n]*)', txt)[:6]
        if kind == 'hash':
            ctx.violation('hint %s=0 is accepted (ncmpio_util.c: only negative values are rejected): zero-size name table, '
                          'mask (0-1), out-of-bounds bucket access: %s' % (what, ' | '.join(frames)[:600]),
                          dict(script=script, nprocs=1, sanitizer=frames,
                               how_to_replay='build with tools/buildlib.sh asan; run the script with pnc_impl_asan'),
                          key='hash_size=0:heap-overrun')
        else:
            ctx.violation('ncmpio_intra_node_aggr_init reads past ranks_my_node[] when the last aggregation group is partial '
                          '(memcpy of num_nonaggrs instead of ncp->num_nonaggrs entries): %s' % ' | '.join(frames)[:600],
                          dict(script=script, nprocs=5, sanitizer=frames), key='aggr:init:nprocs=5:heap-overread')


# ---------------------------------------------------------------------------------- driver
def run(ctx):
    import glob
    for old_replay in glob.glob(os.path.join(C.VERIF, 'replay', '%s-%s-*.json' % (ctx.pid, ctx.tier))):
        os.remove(old_replay)           # replay files of an earlier run of this tier
    lib = C.libdir()
    impl = S.impl_exe(lib)
    info_exe = C.build_c(lib, [os.path.join(C.VERIF, 'harness', 'c10_info.c')], 'c10_info')
    wd = C.scratch()
    pr = C.prove(ctx.pid, gens=('consts',), lib=lib)
    proof_ok = ctx.add_proof(pr, CHECKER_CMD)
    ctx.cov['trusted_base'] = list(C.TRUSTED_COMMON) + [
        'pnc/c10_gen.py (layouts of one logical program, observation extraction, comparison), harness/c10_info.c',
        'model cases evaluated by coqc vm_compute (cases_*.v generated per run)']
    thorough = ctx.tier == 'thorough'
    stats = dict(runs=0, pairs_compared=0, oracle_failures=0, nprocs={}, dims={}, aggr_active_runs=0,
                 layout_checked=0, layout_mismatches=0, info_cases=0, info_mismatches=0, aggr_cases=0)
    layout_cases = []
    progs = differential(ctx, impl, wd, stats, nprog=(100 if thorough else 15), nextra=(4 if thorough else 1),
                         layout_cases=layout_cases, nredef=(36 if thorough else 8), thorough=thorough)
    model_layout_check(ctx, wd, stats, layout_cases, proof_ok)
    info_cases(ctx, info_exe, wd, stats, n=(150 if thorough else 16))
    aggr_cases(ctx, impl, wd, stats, n=(120 if thorough else 12))
    sanitizer_cases(ctx, wd, stats, thorough)
    ctx.cov['rule'] = ('logical programs (schema + attributes + 5..12 steps: disjoint logical puts incl. interleaved twins, gets, '
                       'invalid requests, lookups; half of them with a >4096-byte variable) laid out for the rank count and '
                       'decomposition of each configuration; configurations: reference, rank-count baselines, aggregation variants, '
                       'single-dimension variants, PNETCDF_HINTS form, random combinations; non-trivial = a run whose accesses were '
                       'executed and compared (>= 3 logical accesses); plus the redefinition family (every variable written, redef, '
                       'large attribute / new fixed or record variable / h_minfree, enddef moves the data, everything read back) under '
                       '1..4 (thorough 1..8) ranks x PNETCDF_VERIF_MOVE_UNIT in {unset, 8, 16, 100}; plus c10_info cases (odd hint strings), aggregation model '
                       'cases and sanitizer runs')
    stats['programs'] = len(progs)
    stats['transient_harness_failures'] = TRANSIENT[:10]
    ctx.cov['distribution'] = stats
    ctx.cov['traces_validated_against_impl'] = stats['runs'] + stats['info_cases'] + stats['aggr_cases']
    if not proof_ok and not ctx.violations:
        ctx.violation('theorem(s) of Properties_C10.v no longer check: %s' % ', '.join(pr['failed'])[:500],
                      dict(proof_log=pr['log'][-3000:]), no_input=True)


def replay(ctx, d):
    """re-run the script(s) of a replay file and print the observations"""
    lib = C.libdir()
    impl = S.impl_exe(lib)
    wd = C.scratch()
    for k in ('script', 'reference_script', 'script_without_aggregation'):
        if d.get(k):
            r = S.run_script(d[k], impl, None, wd, 'replay_' + k, timeout=120, want_model=False)
            print('== %s: rc %s hang %s' % (k, r.rc, r.hang))
            for key in sorted(r.impl):
                print(key, ' '.join(r.impl[key])[:400])
    return 0
