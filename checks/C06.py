"""C06 Redefinition preserves existing data; abort is all-or-nothing.
Theorems (Properties_C06.v): the data mover (move_file_block rounds with per-rank tiles,
move_record_vars, move_fixed_vars) moves every block intact for all nprocs/unit/sizes, overlapping
or not, and changes nothing else.  Tie: API correspondence of the extracted model (which runs the
same mover definitions) with the real library on redefinition sessions (hook H2 lowers the round
size so multi-round paths run on small files), spec oracle on the implementation: every element
written before a redefinition is found at its new offset; abort leaves the file byte-identical."""
from pnc import api_check, meta_gen, common as C, session as SS

LEVEL = 'proof'
ASSUMPTIONS = ['MPI-IO / POSIX modelled, not verified', 'hook H2 (PNETCDF_VERIF_MOVE_UNIT) only lowers the round size']


def run(ctx):
    model = C.model_exe()
    wd = C.scratch()
    def judge(sess, r):
        return SS.judge(sess, r) + meta_gen.judge_meta(sess, r, model, wd) + meta_gen.judge_redef(sess, r)
    gens = [('redef', dict(fn=lambda rng: meta_gen.gen_redef_session(rng), share=1))]
    api_check.run_api_check(ctx, gens, None, n_quick=100, n_thorough=1500, judge=judge,
                            gens_translators=('consts', 'begins'))
